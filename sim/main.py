"""Driver: ./check <id> [quick|thorough] [--replay f] [--digests a:b] [--runs N]

Exit codes: 0 property held on everything explored (KNOWN-FINDING lines allowed),
1 violation (line `VIOLATION property=<id> replay=<path>`), 2 harness error.
"""
import importlib
import json
import os
import subprocess
import sys
import time

from . import core


def _parse(argv):
    a = {"id": None, "tier": os.environ.get("VERIF_TIER") or None, "replay": None,
         "digests": None, "runs": None, "no_selftest": False, "keep_going": False}
    it = iter(argv)
    for x in it:
        if x == "--replay":
            a["replay"] = next(it)
        elif x == "--digests":
            a["digests"] = next(it)
        elif x == "--runs":
            a["runs"] = int(next(it))
        elif x == "--no-selftest":
            a["no_selftest"] = True
        elif x in ("quick", "thorough"):
            a["tier"] = x
        elif a["id"] is None:
            a["id"] = x.upper()
        else:
            raise SystemExit(f"unexpected argument {x}")
    if a["tier"] not in ("quick", "thorough"):
        a["tier"] = "quick"
    return a


def _harness_error(msg):
    print(f"HARNESS-ERROR {msg}")
    sys.exit(2)


def _fresh_digests(prop, tier, lo, hi, hashseed):
    env = dict(os.environ, VERIF_HASHSEED=str(hashseed), VERIF_WORKERS="4")
    p = subprocess.run([os.path.join(core.VERIF_DIR, "check"), prop, tier, "--digests", f"{lo}:{hi}"],
                       env=env, capture_output=True, text=True, timeout=900)
    for line in p.stdout.splitlines():
        if line.startswith("DIGESTS "):
            return json.loads(line[len("DIGESTS "):])
    raise RuntimeError(f"digest subprocess failed rc={p.returncode}: {p.stdout[-500:]} {p.stderr[-800:]}")


def main(argv):
    a = _parse(argv)
    if not a["id"]:
        raise SystemExit(__doc__)
    prop = a["id"]
    t0 = time.time()
    core.load_library()
    mod = importlib.import_module(f"checks.{prop.lower()}")
    tier = a["tier"]
    master = core.master_seed()

    # ---------------- replay mode ----------------
    if a["replay"]:
        with open(a["replay"]) as f:
            doc = json.load(f)
        res = core.fork_execute(mod, doc["spec"], wall=mod.WALL.get("replay", 300))
        if "harness_error" in res:
            _harness_error(f"replay {a['replay']}: {res['harness_error'][-1500:]}")
        v = res.get("viol")
        print(f"replay seed={doc['spec'].get('seed')} digest={res['digest']} "
              f"digest_match={res['digest'] == doc.get('digest')}")
        if v:
            print(f"oracle={v['oracle']} step={v.get('step')} sig={v.get('sig')}")
            print(f"  {v['msg']}")
            same = v["oracle"] == doc.get("oracle")
            print(f"same_oracle={same}")
            print(f"VIOLATION property={prop} replay={a['replay']}")
            sys.exit(1)
        print("replay did not reproduce a violation on this tree")
        sys.exit(0)

    specs = mod.tasks(tier, master)
    if a["runs"] is not None:
        runs = [s for s in specs if s.get("kind", "run") == "run"][:a["runs"]]
        specs = runs + [s for s in specs if s.get("kind", "run") != "run"]

    # ---------------- digest mode (determinism self-test helper) ----------------
    if a["digests"]:
        lo, hi = (int(x) for x in a["digests"].split(":"))
        sub = [s for s in specs if s.get("kind", "run") == "run"][lo:hi]
        res = core.run_specs(mod, sub, wall=mod.WALL.get(tier, 120))
        print("DIGESTS " + json.dumps([r.get("digest", "ERR:" + r.get("harness_error", "")[-200:]) for r in res]))
        sys.exit(0)

    print(f"check property={prop} tier={tier} VERIF_SEED={master} repo={core.REPO} tasks={len(specs)}")
    block = mod.BLOCK.get(tier, 100000) if hasattr(mod, "BLOCK") else 100000
    results = []
    first_bad = None
    for b0 in range(0, len(specs), block):
        part = core.run_specs(mod, specs[b0:b0 + block],
                              wall=float(os.environ.get("VERIF_WALL") or mod.WALL.get(tier, 120)))
        results.extend(part)
        bad = [b0 + k for k, r in enumerate(part) if r.get("viol")]
        if bad:
            first_bad = bad[0]
            break
        # harness errors count only if no run of the block found a violation (a mutated
        # library can also break the harness; the replayable violation is the better report)
        for k, r in enumerate(part):
            if "harness_error" in r:
                _harness_error(f"property={prop} task={b0 + k} seed={specs[b0 + k].get('seed')}: "
                               f"{r['harness_error'][-2000:]}")

    wall_run = time.time() - t0
    known_list = core.load_known(prop)

    # ---------------- determinism self-test on a sample ----------------
    selftest = {"done": False}
    run_idx = [k for k, s in enumerate(specs[:len(results)]) if s.get("kind", "run") == "run"]
    if not a["no_selftest"] and first_bad is None and run_idx:
        n_st = min(len(run_idx), mod.SELFTEST.get(tier, 8) if hasattr(mod, "SELFTEST") else 8)
        try:
            d2 = _fresh_digests(prop, tier, 0, n_st, hashseed=12345)
        except Exception as e:  # noqa
            _harness_error(f"determinism self-test could not run: {e}")
        d1 = [results[k]["digest"] for k in run_idx[:n_st]]
        if d1 != d2:
            diff = [k for k in range(n_st) if d1[k] != d2[k]]
            _harness_error(f"determinism self-test failed for property={prop}: runs {diff} differ between "
                           f"this process and a fresh interpreter (PYTHONHASHSEED=12345, 4 workers)")
        selftest = {"done": True, "runs_compared": n_st, "fresh_interpreter": True,
                    "hashseeds": [int(os.environ.get("PYTHONHASHSEED", "0")), 12345],
                    "worker_counts": [core.WORKERS, 4], "digests_equal": True}

    # ---------------- aggregate ----------------
    faults, probes, sigs = {}, {}, set()
    ops_total = ok_total = 0
    sim_s = 0.0
    known_hits = {}
    nontrivial_runs = 0
    for r in results:
        if "harness_error" in r:
            continue
        core.merge_counts(faults, r.get("faults", {}))
        core.merge_counts(probes, r.get("probes", {}))
        ops_total += r.get("n_ops", 0)
        ok_total += r.get("ok_ops", 0)
        sim_s += r.get("sim_s", 0.0)
        if r.get("ok_ops", 0) >= getattr(mod, "NONTRIVIAL_OPS", 3):
            sigs.update(r.get("sigs", []))
            nontrivial_runs += 1
        for kf in r.get("known", []):
            known_hits[kf] = known_hits.get(kf, 0) + 1

    violations = 0
    replay_path = None
    if first_bad is not None:
        violations = 1
        spec = dict(specs[first_bad])
        r = results[first_bad]
        v = r["viol"]
        print(f"violation in task {first_bad} seed={spec.get('seed')} oracle={v['oracle']} step={v.get('step')}")
        print(f"  {v['msg']}")
        for line in r.get("tail", []):
            print(f"    log: {line[:200]}")
        min_calls = 0
        if spec.get("kind", "run") == "run":
            cfg, ops = mod.generate(spec["seed"], tier)
            spec["cfg"], spec["ops"] = cfg, ops
            if v.get("step") is not None:
                spec["ops"] = ops[: v["step"] + 1]
            n0 = len(spec["ops"])
            try:
                new_ops, min_calls = core.minimise(mod, spec, v["oracle"],
                                                   budget=int(os.environ.get("VERIF_MIN_BUDGET", "300")),
                                                   wall=mod.WALL.get("replay", 120))
                spec["ops"] = new_ops
            except Exception as e:  # noqa
                print(f"  (minimisation aborted: {e})")
            print(f"  minimised {n0} -> {len(spec['ops'])} ops in {min_calls} replays")
        final = core.fork_execute(mod, spec, wall=mod.WALL.get("replay", 300))
        fv = final.get("viol") or v
        replay_path = core.write_replay(prop, spec, fv, final.get("digest"),
                                        {"original_ops": r.get("n_ops"), "minimise_replays": min_calls})
        # confirm in a fresh interpreter before reporting
        p = subprocess.run([os.path.join(core.VERIF_DIR, "check"), prop, "--replay", replay_path],
                           capture_output=True, text=True, timeout=1200)
        confirmed = p.returncode == 1 and "VIOLATION" in p.stdout
        print(f"  replay confirmed in fresh interpreter: {confirmed}")
        if not confirmed:
            print(p.stdout[-1500:])
            print(p.stderr[-1500:])
            _harness_error(f"violation of {prop} did not replay from {replay_path}")

    wall = time.time() - t0
    n_eval = len(results)
    run_specs_only = [s for s in specs if s.get("kind", "run") == "run"]
    samples = []
    for s in run_specs_only[:2]:
        cfg, ops = mod.generate(s["seed"], tier)
        samples.append({"seed": s["seed"], "cfg": cfg, "ops": ops[:25], "ops_in_run": len(ops)})
    for s in [s for s in specs if s.get("kind", "run") != "run"][:2]:
        samples.append({k: v for k, v in s.items() if not k.startswith("_")})
    coverage = {
        "evaluations": n_eval,
        "distinct_nontrivial": len(sigs),
        "rule": mod.RULE,
        "samples": samples,
        "runs_nontrivial": nontrivial_runs,
        "ops_total": ops_total,
        "ops_ok": ok_total,
        "runs_per_hour": int(n_eval / max(wall_run, 1e-6) * 3600),
        "seeds": {"master": master, "derivation": "sha256(VERIF_SEED/property/tier/index)[:8]",
                  "first": [s.get("seed") for s in run_specs_only[:5]]},
        "simulated_seconds": round(sim_s, 6),
        "faults_fired": dict(sorted(faults.items())),
        "probes": dict(sorted(probes.items())),
        "components_real": mod.COMPONENTS_REAL,
        "components_stub": mod.COMPONENTS_STUB,
        "determinism_selftest": selftest,
        "known_findings_hit": known_hits,
        "tasks_by_kind": {},
        "exhaustive": False,
    }
    for s in specs[:len(results)]:
        k = s.get("kind", "run")
        coverage["tasks_by_kind"][k] = coverage["tasks_by_kind"].get(k, 0) + 1
    if hasattr(mod, "extra_coverage"):
        coverage.update(mod.extra_coverage(tier, specs[:len(results)], results))
    core.write_evidence(prop, tier, coverage, wall, violations, mod.ASSUMPTIONS)

    for kf in known_list:
        key = kf.get("oracle") + "|" + kf.get("signature", "")
        n = sum(c for k2, c in known_hits.items() if k2 == key)
        print(f"KNOWN-FINDING: property={prop} {kf.get('what')} [oracle={kf.get('oracle')} "
              f"signature={kf.get('signature')} reproduced={n}]")
    print(f"done property={prop} tier={tier} tasks={n_eval} ops={ops_total} distinct={len(sigs)} "
          f"faults={sum(faults.values())} wall={wall:.1f}s")
    if violations:
        print(f"VIOLATION property={prop} replay={replay_path}")
        sys.exit(1)
    sys.exit(0)


if __name__ == "__main__":
    try:
        main(sys.argv[1:])
    except SystemExit:
        raise
    except BaseException as e:  # anything unexpected in the driver itself is a harness error, never exit 0/1
        import traceback
        traceback.print_exc()
        print(f"HARNESS-ERROR driver failed: {type(e).__name__}: {e}")
        sys.exit(2)
