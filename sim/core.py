"""Core of the deterministic simulator: seeds, task runner (fork-per-run), event
log digests, delta-debugging, replay files, known findings, evidence.

See DESIGN.md section 2.  Nothing in this file touches the library; property
modules under checks/ do, through the seams in sim/seams.py.
"""
import faulthandler
import fnmatch
import hashlib
import json
import os
import random
import select
import shutil
import signal
import sys
import tempfile
import time
import traceback

VERIF_DIR = os.path.dirname(os.path.dirname(os.path.abspath(__file__)))
REPO = os.environ.get("VERIF_REPO", "/repo")
WORKERS = int(os.environ.get("VERIF_WORKERS", "16"))


# --------------------------------------------------------------------------
# seeds
# --------------------------------------------------------------------------
def derive_seed(*parts) -> int:
    """One integer decides everything: SHA-256 of the path of names."""
    s = "/".join(str(p) for p in parts)
    return int.from_bytes(hashlib.sha256(s.encode()).digest()[:8], "big")


def master_seed() -> int:
    try:
        return int(os.environ.get("VERIF_SEED", "0"))
    except ValueError:
        return derive_seed("env", os.environ.get("VERIF_SEED"))


# --------------------------------------------------------------------------
# violations and the per-run recorder
# --------------------------------------------------------------------------
class Violation(Exception):
    """An oracle fired.  `oracle` is an id from DESIGN.md appendix A, `sig` a
    normalised signature of the failing op (key for known findings)."""

    def __init__(self, oracle, msg, sig=""):
        super().__init__(f"{oracle}: {msg}")
        self.oracle = oracle
        self.msg = msg
        self.sig = sig


class Recorder:
    """Event log + counters for one run.  Logging never draws random numbers
    and never reads a clock."""

    def __init__(self):
        self._h = hashlib.sha256()
        self.n_events = 0
        self.ok_ops = 0
        self.n_ops = 0
        self.faults = {}
        self.probes = {}
        self.sigs = set()
        self.sim_s = 0.0
        self.known = []
        self.tail = []

    def log(self, *items):
        line = "|".join(str(x) for x in items)
        self._h.update(line.encode())
        self._h.update(b"\n")
        self.n_events += 1
        self.tail.append(line)
        if len(self.tail) > 40:
            del self.tail[0]

    def fault(self, kind, n=1):
        self.faults[kind] = self.faults.get(kind, 0) + n

    def probe(self, name, n=1):
        self.probes[name] = self.probes.get(name, 0) + n

    def sig(self, *items):
        if len(self.sigs) < 400:
            self.sigs.add("|".join(str(x) for x in items))

    def digest(self):
        return self._h.hexdigest()


def from_library(exc) -> bool:
    """True if the exception was raised by a frame inside the library under test
    (as opposed to harness code): such an exception is an outcome of the library."""
    root = os.path.realpath(REPO) + os.sep
    tb = exc.__traceback__
    last_lib = False
    while tb is not None:
        fn = os.path.realpath(tb.tb_frame.f_code.co_filename)
        last_lib = fn.startswith(root)
        if last_lib:
            return True
        tb = tb.tb_next
    return False


def run_ops(machine, ops, rec, crash_oracle, write_oracle=None):
    """Generic interpreter loop: one op at a time, invariants inside machine.apply().
    A non-Violation exception coming out of library frames during an op whose
    outcome the machine did not anticipate is reported under `crash_oracle`."""
    for step, op in enumerate(ops):
        try:
            machine.apply(op, step)
        except Violation as v:
            v.step = step
            raise
        except Exception as e:
            if from_library(e) or "read-only" in str(e):
                what = "wrote to a write-protected operand" if "read-only" in str(e) else "raised"
                orc = write_oracle if (write_oracle and "read-only" in str(e)) else crash_oracle
                v = Violation(orc, f"library {what} during op {json.dumps(op)[:300]}: "
                                            f"{type(e).__name__}: {e}", f"crash/{op.get('op')}/{type(e).__name__}")
                v.step = step
                raise v from e
            raise
    fin = getattr(machine, "finish", None)
    if fin:
        try:
            fin()
        except Violation as v:
            v.step = len(ops) - 1
            raise


def array_digest(a) -> str:
    import numpy as np
    a = np.asarray(a)
    h = hashlib.sha256()
    h.update(str(a.dtype).encode())
    h.update(str(a.shape).encode())
    h.update(np.ascontiguousarray(a).tobytes())
    return h.hexdigest()[:24]


# --------------------------------------------------------------------------
# known findings
# --------------------------------------------------------------------------
def load_known(prop):
    path = os.path.join(VERIF_DIR, "known_findings.json")
    try:
        with open(path) as f:
            data = json.load(f)
    except FileNotFoundError:
        return []
    return [k for k in data.get("findings", []) if k.get("property") == prop]


def match_known(known, oracle, sig):
    for k in known:
        if k.get("oracle") == oracle and fnmatch.fnmatchcase(sig, k.get("signature", "")):
            return k
    return None


# --------------------------------------------------------------------------
# library loading (pristine template)
# --------------------------------------------------------------------------
_loaded = False


def load_library():
    """Import the library from the working tree under REPO and warm third-party
    first-call costs.  No opticomlib *function* is executed here."""
    global _loaded
    if _loaded:
        return
    sys.path.insert(0, REPO)
    import warnings
    import matplotlib
    matplotlib.use("Agg")
    import numpy as np
    import scipy.signal as sg
    import sklearn.cluster as sk
    with warnings.catch_warnings():
        warnings.simplefilter("ignore")
        import opticomlib
        import opticomlib.typing, opticomlib.utils, opticomlib.devices  # noqa
        import opticomlib.ppm, opticomlib.ook, opticomlib.lab  # noqa
    real = os.path.realpath(opticomlib.__file__)
    if not real.startswith(os.path.realpath(REPO) + os.sep):
        raise RuntimeError(f"opticomlib imported from {real}, expected under {REPO}")
    # warm-up of third-party code only
    rs = np.random.RandomState(0)
    sk.KMeans(n_clusters=2, n_init=2, random_state=0).fit(rs.randn(16, 1))
    sos = sg.bessel(N=4, Wn=0.2, btype="low", output="sos", norm="mag")
    sg.sosfiltfilt(sos, rs.randn(64))
    sg.fftconvolve(rs.randn(8), rs.randn(8))
    np.fft.fft(rs.randn(8))
    _loaded = True


# --------------------------------------------------------------------------
# executing one task in a forked child
# --------------------------------------------------------------------------
def _child(prop_mod, spec, wfd, wall):
    try:
        faulthandler.enable()
        faulthandler.dump_traceback_later(wall, exit=True)
        res = execute_spec(prop_mod, spec)
    except BaseException:  # harness failure, not a violation
        res = {"harness_error": traceback.format_exc()}
    try:
        data = json.dumps(res).encode()
    except Exception:
        data = json.dumps({"harness_error": "unserialisable result: " + repr(res)[:2000]}).encode()
    view = memoryview(data)
    while view:
        n = os.write(wfd, view)
        view = view[n:]
    os.close(wfd)
    os._exit(0)


def fork_execute(prop_mod, spec, wall=120.0):
    """Run one spec in a fresh fork of the (pristine) current process."""
    r, w = os.pipe()
    sys.stdout.flush()
    sys.stderr.flush()
    pid = os.fork()
    if pid == 0:
        os.close(r)
        _child(prop_mod, spec, w, wall)
    os.close(w)
    chunks = []
    deadline = time.monotonic() + wall + 5.0
    timed_out = False
    while True:
        left = deadline - time.monotonic()
        if left <= 0:
            timed_out = True
            break
        rl, _, _ = select.select([r], [], [], min(left, 1.0))
        if rl:
            b = os.read(r, 1 << 16)
            if not b:
                break
            chunks.append(b)
    os.close(r)
    if timed_out:
        try:
            os.kill(pid, signal.SIGKILL)
        except ProcessLookupError:
            pass
    _, status = os.waitpid(pid, 0)
    if timed_out:
        return {"harness_error": f"run exceeded wall limit {wall}s and was killed"}
    raw = b"".join(chunks)
    if not raw:
        return {"harness_error": f"child died without a result (status {status})"}
    try:
        return json.loads(raw)
    except Exception:
        return {"harness_error": "bad result payload"}


def execute_spec(prop_mod, spec):
    """Execute a task spec in *this* process (call only in a forked child or in
    a fresh interpreter)."""
    rec = Recorder()
    known = load_known(prop_mod.PROPERTY)
    spec = dict(spec)
    if spec.get("kind", "run") == "run" and "ops" not in spec:
        cfg, ops = prop_mod.generate(spec["seed"], spec.get("tier", "quick"))
        spec["cfg"], spec["ops"] = cfg, ops
    viol = None
    # the simulator owns numpy's global RandomState from the first instruction of the run
    # (a fresh process seeds it from OS entropy, which would leak into unseeded library calls)
    import numpy as _np
    _np.random.seed((spec.get("seed") or 0) % (2 ** 32))
    try:
        prop_mod.execute(spec, rec, known)
    except Violation as v:
        viol = {"oracle": v.oracle, "msg": v.msg[:1500], "sig": v.sig,
                "step": getattr(v, "step", None)}
    out = {
        "i": spec.get("i"),
        "seed": spec.get("seed"),
        "kind": spec.get("kind", "run"),
        "viol": viol,
        "known": rec.known,
        "digest": rec.digest(),
        "n_events": rec.n_events,
        "n_ops": rec.n_ops,
        "ok_ops": rec.ok_ops,
        "faults": rec.faults,
        "probes": rec.probes,
        "sigs": sorted(rec.sigs),
        "sim_s": rec.sim_s,
    }
    if viol is not None:
        out["tail"] = rec.tail[-12:]
    return out


# --------------------------------------------------------------------------
# parallel runner: lanes fork one child per task
# --------------------------------------------------------------------------
def _lane(prop_mod, specs, out_path, wall):
    timeouts = 0
    with open(out_path, "w") as f:
        for spec in specs:
            if timeouts >= 2:
                # a hanging library (e.g. a mutant that loops forever) must not keep the check busy for hours
                res = {"harness_error": "skipped: two earlier runs of this lane were killed at the wall limit"}
            else:
                res = fork_execute(prop_mod, spec, wall)
                he = res.get("harness_error", "")
                if "exceeded wall limit" in he or "died without a result" in he:
                    timeouts += 1
            res["_i"] = spec["_i"]
            f.write(json.dumps(res) + "\n")
            f.flush()
    os._exit(0)


def run_specs(prop_mod, specs, wall=120.0, workers=None):
    """Execute all specs, each in its own fork; results ordered by spec index."""
    workers = workers or WORKERS
    specs = [dict(s, _i=k) for k, s in enumerate(specs)]
    if not specs:
        return []
    workers = max(1, min(workers, len(specs)))
    scratch = tempfile.mkdtemp(prefix="verif-", dir="/dev/shm" if os.path.isdir("/dev/shm") else None)
    try:
        # heavy specs first within a lane would not change results; keep index order
        lanes = [specs[k::workers] for k in range(workers)]
        pids = []
        sys.stdout.flush()
        sys.stderr.flush()
        for k, lane_specs in enumerate(lanes):
            path = os.path.join(scratch, f"lane{k}.jsonl")
            pid = os.fork()
            if pid == 0:
                try:
                    _lane(prop_mod, lane_specs, path, wall)
                finally:
                    os._exit(1)
            pids.append(pid)
        for pid in pids:
            os.waitpid(pid, 0)
        results = [None] * len(specs)
        for k in range(workers):
            path = os.path.join(scratch, f"lane{k}.jsonl")
            if not os.path.exists(path):
                continue
            with open(path) as f:
                for line in f:
                    if line.strip():
                        r = json.loads(line)
                        results[r.pop("_i")] = r
        for k, r in enumerate(results):
            if r is None:
                results[k] = {"harness_error": "lane died before producing this result"}
        return results
    finally:
        shutil.rmtree(scratch, ignore_errors=True)


# --------------------------------------------------------------------------
# minimisation (ddmin over the op list, then per-op simplification)
# --------------------------------------------------------------------------
def minimise(prop_mod, spec, oracle, budget=300, wall=60.0):
    """Shrink spec['ops'] while the same oracle id keeps firing."""
    ops = list(spec["ops"])
    calls = [0]

    def fails(cand_ops):
        if calls[0] >= budget:
            return False
        calls[0] += 1
        s = dict(spec, ops=cand_ops)
        r = fork_execute(prop_mod, s, wall)
        v = r.get("viol")
        return bool(v) and v["oracle"] == oracle

    # truncate after the failing step first
    n = 2
    while len(ops) >= 2 and calls[0] < budget:
        chunk = max(1, len(ops) // n)
        reduced = False
        for start in range(0, len(ops), chunk):
            cand = ops[:start] + ops[start + chunk:]
            if cand and fails(cand):
                ops = cand
                n = max(n - 1, 2)
                reduced = True
                break
        if not reduced:
            if chunk == 1:
                break
            n = min(len(ops), n * 2)
    # per-op simplification offered by the property module
    simplify = getattr(prop_mod, "simplify_op", None)
    if simplify:
        changed = True
        while changed and calls[0] < budget:
            changed = False
            for k in range(len(ops)):
                for cand_op in simplify(ops[k]):
                    cand = ops[:k] + [cand_op] + ops[k + 1:]
                    if fails(cand):
                        ops = cand
                        changed = True
                        break
    return ops, calls[0]


def write_replay(prop, spec, viol, digest, extra=None):
    # VERIF_REPLAY_DIR / VERIF_EVIDENCE_DIR redirect the output of self-test and seeded-change evaluations so that
    # they never touch the committed evidence and can run in parallel; registered commands do not set them
    rdir = os.environ.get("VERIF_REPLAY_DIR") or os.path.join(VERIF_DIR, "replays")
    os.makedirs(rdir, exist_ok=True)
    name = f"{prop}-{master_seed()}-{spec.get('kind', 'run')}{spec.get('i', 0)}.json"
    path = os.path.join(rdir, name)
    doc = {
        "property": prop,
        "master_seed": master_seed(),
        "spec": {k: v for k, v in spec.items() if not k.startswith("_")},
        "oracle": viol["oracle"],
        "sig": viol.get("sig"),
        "step": viol.get("step"),
        "msg": viol.get("msg"),
        "digest": digest,
    }
    if extra:
        doc.update(extra)
    with open(path, "w") as f:
        json.dump(doc, f, indent=1)
    return path


# --------------------------------------------------------------------------
# evidence
# --------------------------------------------------------------------------
def write_evidence(prop, tier, coverage, wall_s, violations, assumptions, level="exploration"):
    edir = os.environ.get("VERIF_EVIDENCE_DIR") or os.path.join(VERIF_DIR, "evidence")
    os.makedirs(edir, exist_ok=True)
    doc = {
        "property_id": prop,
        "tier": tier,
        "seed": master_seed(),
        "level": level,
        "coverage": coverage,
        "assumptions": assumptions,
        "wall_s": round(wall_s, 3),
        "violations": violations,
    }
    path = os.path.join(edir, f"{prop}.json")
    tmp = path + ".tmp"
    with open(tmp, "w") as f:
        json.dump(doc, f, indent=1, sort_keys=True)
    os.replace(tmp, path)
    return path


def merge_counts(dst, src):
    for k, v in src.items():
        dst[k] = dst.get(k, 0) + v
