"""Seams owned by the simulator (DESIGN.md section 2.3).  All taken from outside by
rebinding names; nothing here is installed in /repo."""
import contextlib
import hashlib
import io
import random
import sys
import warnings

import numpy as np


# --------------------------------------------------------------------------
# S3: wall clock seen by opticomlib.utils (tic/toc)
# --------------------------------------------------------------------------
class SimClock:
    """Replaces the name `tm` in opticomlib.utils.  `.time()` is the only clock
    the library reads.  Advances by scripted service times; fault modes make it
    jump, run backwards, stall, or change between the tic and toc of one call."""

    def __init__(self, seed):
        self._rng = random.Random(seed ^ 0x5EED_C10C)
        self.now = 1_700_000_000.0
        self.start = self.now
        self.mode = "normal"
        self.calls = 0
        self.covered = 0.0

    def time(self):
        self.calls += 1
        m = self.mode
        if m == "normal":
            dt = self._rng.uniform(1e-6, 5e-3)
        elif m == "stall":
            dt = 0.0
        elif m == "jump":
            dt = self._rng.uniform(1e3, 1e7)
        elif m == "back":
            dt = -self._rng.uniform(1.0, 1e6)
        elif m == "mid_call":  # alternate: forward on even calls, backwards on odd ones
            dt = 3600.0 if self.calls % 2 == 0 else -7200.0
        else:
            dt = 0.0
        self.now += dt
        self.covered += abs(dt)
        return self.now

    # the library only uses tm.time(); anything else would be a new dependency
    def __getattr__(self, name):
        raise AttributeError(f"SimClock: library asked for time.{name}, which the simulator does not provide")


def install_clock(seed):
    import opticomlib.utils as u
    clk = SimClock(seed)
    u.tm = clk
    return clk


def timer_stack_depth():
    import opticomlib.utils as u
    return len(u._timer_instance.tic_stack)


# --------------------------------------------------------------------------
# S2: numpy global RandomState, layer B (scripted draw streams)
# --------------------------------------------------------------------------
class ScriptedRNG:
    """Recording peer for the np.random entry points the library calls.

    mode:
      'real'            answers from a private RandomState(seed)
      'zero'            every standard draw is 0
      'const'           every standard draw is `value`
      'onehot'          unit number `k` answers 1 everywhere, all others 0
      'impulse'         unit `k` answers 1 at sample `n`, 0 elsewhere
      'first'/'last'    randint -> low / high-1 ; choice -> a[0] / a[-1]
      'script'          randint/choice answers taken from `answers` (mixed radix), then 'first'
    A *unit* is one row of a Gaussian request: normal(loc, scale, N) is one unit,
    randn(4, N) is four units.
    """

    GAUSS = ("normal", "randn", "standard_normal")
    CHOICE = ("randint", "choice")
    TRIP = ("random", "rand", "uniform", "random_sample", "permutation", "shuffle", "default_rng",
            "poisson", "binomial", "exponential", "rayleigh")

    def __init__(self, mode="real", seed=0, k=None, n=0, value=1.0, answers=None):
        self.mode = mode
        self.rs = np.random.RandomState(seed % (2 ** 32))
        self.k = k
        self.n = n
        self.value = value
        self.answers = list(answers or [])
        self.requests = []      # (fn, loc, scale, shape) per request
        self.units = []         # (request index, row) per Gaussian unit
        self.choices = []       # (fn, n_options, answer index)
        self.tripped = []
        self._saved = {}

    # ---- Gaussian family -------------------------------------------------
    def _std(self, shape):
        shape = () if shape is None else (tuple(shape) if isinstance(shape, (tuple, list)) else (int(shape),))
        req = len(self.requests)
        rows = shape[0] if len(shape) >= 2 else 1
        first_unit = len(self.units)
        for r in range(rows):
            self.units.append((req, r))
        m = self.mode
        if m == "real":
            z = self.rs.standard_normal(shape)
        elif m == "zero":
            z = np.zeros(shape)
        elif m == "const":
            z = np.full(shape, float(self.value))
        elif m in ("onehot", "impulse"):
            z = np.zeros(shape)
            if self.k is not None and first_unit <= self.k < first_unit + rows:
                row = self.k - first_unit
                if len(shape) >= 2:
                    if m == "onehot":
                        z[row] = 1.0
                    else:
                        z[row][..., self.n % shape[-1]] = 1.0
                elif len(shape) == 1:
                    if m == "onehot":
                        z[:] = 1.0
                    else:
                        z[self.n % shape[0]] = 1.0
                else:
                    z = np.array(1.0)
        else:
            z = np.zeros(shape)
        return z, shape

    def normal(self, loc=0.0, scale=1.0, size=None):
        z, shape = self._std(size)
        self.requests.append(("normal", _scalar(loc), _scalar(scale), shape))
        return loc + scale * z

    def randn(self, *dims):
        z, shape = self._std(dims)
        self.requests.append(("randn", 0.0, 1.0, shape))
        return z

    def standard_normal(self, size=None):
        z, shape = self._std(size)
        self.requests.append(("standard_normal", 0.0, 1.0, shape))
        return z

    # ---- discrete choices --------------------------------------------------
    def _pick(self, fn, n):
        m = self.mode
        if n <= 0:
            raise ValueError("empty choice")
        if m == "real":
            idx = int(self.rs.randint(n))
        elif m == "last":
            idx = n - 1
        elif m == "script" and self.answers:
            idx = self.answers.pop(0) % n
        else:
            idx = 0
        self.choices.append((fn, n, idx))
        return idx

    def randint(self, low, high=None, size=None, dtype=int):
        if high is None:
            low, high = 0, low
        if size is None:
            self.requests.append(("randint", low, high, ()))
            return int(low) + self._pick("randint", int(high) - int(low))
        shape = tuple(size) if isinstance(size, (tuple, list)) else (int(size),)
        self.requests.append(("randint", low, high, shape))
        out = np.empty(shape, dtype=dtype)
        flat = out.reshape(-1)
        for i in range(flat.size):
            flat[i] = int(low) + self._pick("randint", int(high) - int(low))
        return out

    def choice(self, a, size=None, replace=True, p=None):
        arr = np.arange(a) if isinstance(a, (int, np.integer)) else np.asarray(a)
        self.requests.append(("choice", 0, int(arr.size), () if size is None else size))
        if size is None:
            return arr[self._pick("choice", int(arr.size))]
        shape = tuple(size) if isinstance(size, (tuple, list)) else (int(size),)
        idx = np.array([self._pick("choice", int(arr.size)) for _ in range(int(np.prod(shape)))])
        return arr[idx].reshape(shape)

    # ---- install / remove ---------------------------------------------------
    def _trip(self, name):
        def f(*a, **k):
            self.tripped.append(name)
            return self._saved[name](*a, **k)
        return f

    def __enter__(self):
        for name in self.GAUSS + self.CHOICE:
            self._saved[name] = getattr(np.random, name)
            setattr(np.random, name, getattr(self, name))
        for name in self.TRIP:
            if hasattr(np.random, name):
                self._saved[name] = getattr(np.random, name)
                setattr(np.random, name, self._trip(name))
        return self

    def __exit__(self, *exc):
        for name, f in self._saved.items():
            setattr(np.random, name, f)
        self._saved = {}
        return False

    @property
    def n_units(self):
        return len(self.units)


def _scalar(x):
    try:
        return float(x)
    except Exception:
        return repr(x)


# --------------------------------------------------------------------------
# S7: warnings / stdout / print options
# --------------------------------------------------------------------------
@contextlib.contextmanager
def warning_tap():
    """Every warning raised inside is recorded, whatever filters the library or
    the simulated user installed before (the block's filter list is private)."""
    with warnings.catch_warnings(record=True) as w:
        warnings.simplefilter("always")
        yield w


@contextlib.contextmanager
def stdout_tap():
    old = sys.stdout
    buf = io.StringIO()
    sys.stdout = buf
    try:
        yield buf
    finally:
        sys.stdout = old


def process_state_probe():
    """Lengths only; a probe, never an oracle."""
    return (len(warnings.filters), tuple(sorted((k, str(v)) for k, v in np.get_printoptions().items()
                                                  if k in ("precision", "threshold"))),
            timer_stack_depth())


# --------------------------------------------------------------------------
# S1: gv snapshot
# --------------------------------------------------------------------------
def gv_snapshot():
    """Deep, order-independent digest of gv.__dict__ (arrays by bytes)."""
    from opticomlib.typing import gv
    h = hashlib.sha256()
    for k in sorted(gv.__dict__):
        v = gv.__dict__[k]
        h.update(k.encode())
        if isinstance(v, np.ndarray):
            h.update(str(v.dtype).encode() + str(v.shape).encode() + np.ascontiguousarray(v).tobytes())
        else:
            h.update(repr(v).encode())
    return h.hexdigest()[:24]


def gv_describe():
    from opticomlib.typing import gv
    d = {}
    for k in sorted(gv.__dict__):
        v = gv.__dict__[k]
        d[k] = f"ndarray{v.shape}" if isinstance(v, np.ndarray) else repr(v)
    return d


# --------------------------------------------------------------------------
# S4: buffers
# --------------------------------------------------------------------------
def buf_digest(a):
    if a is None:
        return "None"
    a = np.asarray(a)
    h = hashlib.sha256()
    h.update(str(a.dtype).encode() + str(a.shape).encode())
    h.update(np.ascontiguousarray(a).tobytes())
    return h.hexdigest()[:20]


def set_writeable(arrs, flag):
    for a in arrs:
        if isinstance(a, np.ndarray):
            try:
                a.setflags(write=flag)
            except ValueError:
                pass


def obj_buffers(o):
    """Public sample buffers of a library object."""
    out = []
    for name in ("signal", "noise", "data"):
        v = getattr(o, name, None)
        if isinstance(v, np.ndarray):
            out.append((name, v))
    return out


def shares(a, b):
    if not isinstance(a, np.ndarray) or not isinstance(b, np.ndarray):
        return False
    if a.size == 0 or b.size == 0:
        return False
    return bool(np.shares_memory(a, b))
