"""Helpers shared by property modules: grid (gv) reconfiguration ops, data
generation from seeds, tolerant comparisons."""
import random

import numpy as np

SPS_SET = [2, 3, 4, 5, 7, 8, 16, 32, 64]
R_SET = [1e9, 2.5e9, 10e9, 25e9, 12.5e9, 1e6, 40e9, 100e6]
WL_SET = [1550e-9, 1310e-9, 1549.32e-9, 1600e-9, 850e-9]


def gen_gv_op(rng: random.Random, allow_N=True, max_total=4096):
    """A commensurate gv(...) call as data.  sps is drawn first, then R or fs is
    derived so that fs/R is an exact integer in floating point."""
    sps = rng.choice(SPS_SET)
    R = rng.choice(R_SET)
    fs = R * sps
    form = rng.choice(["sps,R", "sps,fs", "R,fs", "sps,R,fs", "sps,R", "sps,R"])
    kw = {}
    if "sps" in form.split(","):
        kw["sps"] = sps
    if "R" in form.split(","):
        kw["R"] = R
    if "fs" in form.split(","):
        kw["fs"] = fs
    if rng.random() < 0.4:
        kw["wavelength"] = rng.choice(WL_SET)
    if rng.random() < 0.0 and not allow_N:
        pass
    if allow_N and rng.random() < 0.5:
        kw["N"] = rng.choice([1, 2, 3, 8, 10, 17, 64])
        while kw["N"] * sps > max_total:
            kw["N"] = max(1, kw["N"] // 2)
    return {"op": "gv", "kw": kw}


def apply_gv(kw):
    import warnings
    from opticomlib.typing import gv
    with warnings.catch_warnings():
        warnings.simplefilter("ignore")
        gv(**kw)


def rs_for(seed):
    return np.random.RandomState(seed % (2 ** 32))


def close(a, b, rtol=1e-12, atol=0.0):
    a = np.asarray(a)
    b = np.asarray(b)
    if a.shape != b.shape:
        return False
    if a.size == 0:
        return True
    scale = max(float(np.max(np.abs(a))), float(np.max(np.abs(b))), 0.0)
    if not np.isfinite(scale):
        return bool(np.array_equal(a, b, equal_nan=True))
    return bool(np.max(np.abs(a - b)) <= atol + rtol * max(scale, 1e-300))


def exc_name(e):
    return type(e).__name__
