"""Helpers shared by property modules: grid (gv) reconfiguration ops, data
generation from seeds, tolerant comparisons."""
import random

import numpy as np

SPS_SET = [2, 3, 4, 5, 7, 8, 16, 32, 64]
R_SET = [1e9, 2.5e9, 10e9, 25e9, 12.5e9, 1e6, 40e9, 100e6, 10e9 / 3]      # the last one is not a whole number of Hz
WL_SET = [1550e-9, 1310e-9, 1549.32e-9, 1600e-9, 850e-9]


def gen_gv_op(rng: random.Random, allow_N=True, max_total=4096, extra_R=()):
    """A commensurate gv(...) call as data.  sps is drawn first, then R or fs is
    derived so that fs/R is an exact integer in floating point."""
    sps = rng.choice(SPS_SET)
    R = rng.choice(R_SET + list(extra_R))
    fs = R * sps
    form = rng.choice(["sps,R", "sps,fs", "R,fs", "sps,R,fs", "sps,R", "sps,R"])
    kw = {}
    if "sps" in form.split(","):
        kw["sps"] = sps
    if "R" in form.split(","):
        kw["R"] = R
    if "fs" in form.split(","):
        kw["fs"] = fs
    if "sps" in kw and rng.random() < 0.12:
        kw["sps"] = float(np.nextafter(float(sps), 0)) if rng.random() < 0.6 else float(sps)      # sps computed, not typed
    if "fs" in kw and "sps" not in kw and rng.random() < 0.3:
        # a sampling rate obtained from a sampling interval (fs = 1/dt): an ulp below the exact multiple of R
        kw["fs"] = float(np.nextafter(fs, 0))
    if rng.random() < 0.4:
        kw["wavelength"] = rng.choice(WL_SET)
    if allow_N and rng.random() < 0.5:
        kw["N"] = rng.choice([1, 2, 3, 8, 10, 17, 64])
        while kw["N"] * sps > max_total:
            kw["N"] = max(1, kw["N"] // 2)
    return {"op": "gv", "kw": kw}


def relayout(arr, layout):
    """The same values in another memory layout (what a caller's array may look like): Fortran order, a strided view of
    a larger buffer, a negative-stride view."""
    if arr is None or layout in (None, "C"):
        return arr
    a = np.asarray(arr)
    if layout == "F":
        return np.asfortranarray(a) if a.ndim > 1 else a
    if layout == "strided":
        big = np.zeros(a.shape[:-1] + (2 * a.shape[-1],), dtype=a.dtype)
        big[..., ::2] = a
        return big[..., ::2]
    if layout == "neg":
        return a[..., ::-1].copy()[..., ::-1]
    raise ValueError(layout)


def gv_kw(sps, R, style):
    """gv arguments for `sps` samples per slot at slot rate R: given directly, or as the pair (R, fs) with fs taken
    from a sampling interval (an ulp below / at the exact product)."""
    if style == "fsdt":
        return {"R": R, "fs": float(np.nextafter(R * sps, 0))}
    if style == "fs":
        return {"R": R, "fs": R * sps}
    if style == "spsdt":        # samples per slot computed as (1/dt)/R: a float an ulp below the integer
        return {"sps": float(np.nextafter(float(sps), 0)), "R": R}
    return {"sps": sps, "R": R}


def apply_gv(kw):
    import warnings
    from opticomlib.typing import gv
    with warnings.catch_warnings():
        warnings.simplefilter("ignore")
        gv(**kw)


def rs_for(seed):
    return np.random.RandomState(seed % (2 ** 32))


def close(a, b, rtol=1e-12, atol=0.0):
    a = np.asarray(a)
    b = np.asarray(b)
    if a.shape != b.shape:
        return False
    if a.size == 0:
        return True
    scale = max(float(np.max(np.abs(a))), float(np.max(np.abs(b))), 0.0)
    if not np.isfinite(scale):
        return bool(np.array_equal(a, b, equal_nan=True))
    return bool(np.max(np.abs(a - b)) <= atol + rtol * max(scale, 1e-300))


def exc_name(e):
    return type(e).__name__


def leak_sweep(reject, valid, upto, oracle, rec, every=1, what="call"):
    """History fault 'leak ramp': rejected calls leave tic() entries on the library's timer stack (they raise between
    tic() and toc()).  Pile them up one at a time through `reject()` (a call that raises its documented error) until the
    stack holds `upto` entries and, at every `every`-th depth, make the valid call `valid()` (returns a digest): it
    must keep working and keep giving the result it gave before the ramp."""
    from sim import core, seams
    from sim.core import Violation
    try:
        base = valid()
        d0 = seams.timer_stack_depth()
        k = 0
        while seams.timer_stack_depth() < upto and k < 2 * upto + 50:
            reject()
            k += 1
            if k % every == 0:
                got = valid()
                if got != base:
                    raise Violation(oracle, f"{what} gives a different result after {seams.timer_stack_depth()} "
                                            f"rejected calls left their tic() entries behind than at depth {d0}",
                                    "leakramp/differs")
    except Violation:
        raise
    except Exception as e:
        if not core.from_library(e):
            raise
        raise Violation(oracle, f"after {seams.timer_stack_depth()} leaked tic() entries (rejected calls earlier in the "
                                f"session) a valid {what} raised {type(e).__name__}: {e}", "leakramp/raise")
    rec.fault("leak_ramp")
    rec.probe("timer-stack depth swept", seams.timer_stack_depth() - d0)
    return f"depth:{seams.timer_stack_depth()}"
