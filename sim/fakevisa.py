"""S5: the external peer.  An in-process SCPI reference instrument (strict parser +
state) behind a simulated VISA transport with fault injection.  The instrument's
parser is the safety oracle of C20: a command is *in spec* iff it matches the
grammar, addresses a channel in 1..4 and carries a value inside the documented
limits quoted in the property statement."""
import re
import types

import pyvisa
from pyvisa import constants as _vc
from pyvisa import errors as _ve

LIMITS = {
    "freq": (1.5e9, 32e9),
    "amplitude": (0.3, 2.0),
    "offset": (-2.0, 3.0),
    "skew": (-25e-12, 25e-12),
    "patt_len": (2, 2 ** 21),
    "prbs_orders": (7, 9, 11, 15, 23, 31),
    "memory": 2 ** 21,
    "chunk": 1024,
}

_INT = r"[-+]?\d+"
_FLT = r"[-+]?(?:\d+\.?\d*|\.\d+)(?:[eE][-+]?\d+)?"
_G = [
    ("idn", re.compile(r"^\*IDN\?$")),
    ("rst", re.compile(r"^\*RST$")),
    ("leng", re.compile(rf"^:DIG(\d+):PATT:LENG ({_INT})$")),
    ("leng?", re.compile(r"^:DIG(\d+):PATT:LENG\?$")),
    ("type", re.compile(r"^:DIG(\d+):PATT:TYPE (\S+)$")),
    ("type?", re.compile(r"^:DIG(\d+):PATT:TYPE\?$")),
    ("plen", re.compile(rf"^:DIG(\d+):PATT:PLEN ({_INT})$")),
    ("plen?", re.compile(r"^:DIG(\d+):PATT:PLEN\?$")),
    ("data", re.compile(rf"^:DIG(\d+):PATT:DATA ({_INT}),({_INT}),#(\d)(.*)$", re.S)),
    ("data?", re.compile(rf"^:DIG(\d+):PATT:DATA\? ({_INT}),({_INT})$")),
    ("bsh", re.compile(rf"^:DIG(\d+):PATT:BSH ({_INT})$")),
    ("bsh?", re.compile(r"^:DIG(\d+):PATT:BSH\?$")),
    ("outp", re.compile(r"^:OUTP(\d+) (ON|OFF)$")),
    ("freq", re.compile(rf"^:FREQ ({_FLT})$")),
    ("freq?", re.compile(r"^:FREQ\?$")),
    ("skew", re.compile(rf"^:SKEW(\d+) ({_FLT})$")),
    ("skew?", re.compile(r"^:SKEW(\d+)\?$")),
    ("volt", re.compile(rf"^:VOLT(\d+):POS ({_FLT})v$")),
    ("volt?", re.compile(r"^:VOLT(\d+):POS\?$")),
    ("offs", re.compile(rf"^:VOLT(\d+):(?:NEG|POS):OFFS ({_FLT})v$")),
    ("offs?", re.compile(r"^:VOLT(\d+):OFFS\?$")),
]


class Parsed:
    __slots__ = ("family", "ch", "value", "p", "n", "bits", "ok", "reason", "raw")

    def __init__(self, raw):
        self.raw = raw
        self.family = None
        self.ch = None
        self.value = None
        self.p = self.n = None
        self.bits = None
        self.ok = False
        self.reason = "malformed"


def parse(cmd: str) -> Parsed:
    """Strict parser: decides whether a command is in spec."""
    P = Parsed(cmd)
    if not isinstance(cmd, str):
        P.reason = f"not a string ({type(cmd).__name__})"
        return P
    for fam, rx in _G:
        m = rx.match(cmd)
        if not m:
            continue
        P.family = fam
        g = m.groups()
        if fam in ("idn", "rst", "freq?"):
            P.ok, P.reason = True, ""
            return P
        if fam == "freq":
            P.value = float(g[0])
            lo, hi = LIMITS["freq"]
            P.ok = lo <= P.value <= hi
            P.reason = "" if P.ok else f"frequency {P.value:g} outside [{lo:g}, {hi:g}]"
            return P
        P.ch = int(g[0])
        if not 1 <= P.ch <= 4:
            P.reason = f"channel {P.ch} outside 1..4"
            return P
        if fam.endswith("?") and fam != "data?":
            P.ok, P.reason = True, ""
            return P
        if fam == "leng":
            P.value = int(g[1])
            lo, hi = LIMITS["patt_len"]
            P.ok = lo <= P.value <= hi
            P.reason = "" if P.ok else f"pattern length {P.value} outside [{lo}, {hi}]"
        elif fam == "type":
            P.value = g[1]
            P.ok = g[1] in ("DATA", "PRBS")
            P.reason = "" if P.ok else f"pattern type {g[1]!r}"
        elif fam == "plen":
            P.value = int(g[1])
            P.ok = P.value in LIMITS["prbs_orders"]
            P.reason = "" if P.ok else f"PRBS order {P.value} not in {LIMITS['prbs_orders']}"
        elif fam == "bsh":
            P.value = int(g[1])
            P.ok, P.reason = True, ""
        elif fam == "outp":
            P.value = g[1]
            P.ok, P.reason = True, ""
        elif fam == "skew":
            P.value = float(g[1])
            lo, hi = LIMITS["skew"]
            P.ok = lo <= P.value <= hi
            P.reason = "" if P.ok else f"skew {P.value:g} outside [{lo:g}, {hi:g}]"
        elif fam == "volt":
            P.value = float(g[1])
            lo, hi = LIMITS["amplitude"]
            P.ok = lo <= P.value <= hi
            P.reason = "" if P.ok else f"amplitude {P.value:g} outside [{lo:g}, {hi:g}]"
        elif fam == "offs":
            P.value = float(g[1])
            lo, hi = LIMITS["offset"]
            P.ok = lo <= P.value <= hi
            P.reason = "" if P.ok else f"offset {P.value:g} outside [{lo:g}, {hi:g}]"
        elif fam == "data":
            P.p, P.n = int(g[1]), int(g[2])
            k = int(g[3])
            rest = g[4]
            P.reason = ""
            if k != len(str(P.n)):
                P.reason = f"header digit count {k} != len('{P.n}')"
            elif rest[:k] != str(P.n):
                P.reason = f"header length field {rest[:k]!r} != n={P.n}"
            else:
                bits = rest[k:]
                P.bits = bits
                if len(bits) != P.n:
                    P.reason = f"block announces {P.n} bits but carries {len(bits)}"
                elif not 1 <= P.n <= LIMITS["chunk"]:
                    P.reason = f"block of {P.n} bits (allowed 1..{LIMITS['chunk']})"
                elif set(bits) - {"0", "1"}:
                    P.reason = "block carries characters other than 0/1"
                elif P.p < 1 or P.p + P.n - 1 > LIMITS["memory"]:
                    P.reason = f"block [{P.p}, {P.p + P.n - 1}] outside the pattern memory 1..{LIMITS['memory']}"
            P.ok = P.reason == ""
        elif fam == "data?":
            P.p, P.n = int(g[1]), int(g[2])
            P.reason = ""
            if not 1 <= P.n <= LIMITS["chunk"]:
                P.reason = f"read of {P.n} bits (allowed 1..{LIMITS['chunk']})"
            elif P.p < 1 or P.p + P.n - 1 > LIMITS["memory"]:
                P.reason = f"read [{P.p}, {P.p + P.n - 1}] outside the pattern memory"
            P.ok = P.reason == ""
        return P
    return P


class Channel:
    def __init__(self):
        self.patt_len = 2
        self.mode = "DATA"
        self.prbs_order = 7
        self.bsh = 0
        self.skew = 0.0
        self.amplitude = 1.0
        self.offset = 0.0
        self.output = False
        self.mem = None

    def memory(self):
        if self.mem is None:
            self.mem = bytearray(LIMITS["memory"])
        return self.mem


class SimInstrument:
    """Reference PPG3204: applies in-spec commands to its state, logs everything."""

    def __init__(self):
        self.wire = []          # (cmd, Parsed, applied)
        self.resets = 0
        self.power_cycle()

    def power_cycle(self):
        self.freq = 10e9
        self.ch = {c: Channel() for c in (1, 2, 3, 4)}
        self.resets += 1

    def settings_signature(self):
        return (self.freq,) + tuple((c.patt_len, c.mode, c.prbs_order, c.bsh, c.skew, c.amplitude, c.offset, c.output)
                                    for c in self.ch.values())

    def handle(self, cmd, apply=True):
        P = parse(cmd)
        self.wire.append((cmd if len(str(cmd)) < 200 else str(cmd)[:200] + "...", P, apply and P.ok))
        if not P.ok:
            if P.family == "data?":
                return "#10\n"
            return "0\n" if "?" in str(cmd)[:40] else "\n"
        if not apply:
            return "\n"
        f = P.family
        if f == "idn":
            return "TEKTRONIX,PPG3204,SIM0001,FV:1.0\n"
        if f == "rst":
            self.power_cycle()
            return "\n"
        if f == "freq":
            self.freq = P.value
            return "\n"
        if f == "freq?":
            return f"{self.freq:.6e}\n"
        c = self.ch[P.ch]
        if f == "leng":
            c.patt_len = P.value
        elif f == "leng?":
            return f"{c.patt_len}\n"
        elif f == "type":
            c.mode = P.value
        elif f == "type?":
            return f"{c.mode}\n"
        elif f == "plen":
            c.prbs_order = P.value
        elif f == "plen?":
            return f"{c.prbs_order}\n"
        elif f == "bsh":
            c.bsh = P.value
        elif f == "bsh?":
            return f"{c.bsh}\n"
        elif f == "outp":
            c.output = P.value == "ON"
        elif f == "skew":
            c.skew = P.value
        elif f == "skew?":
            return f"{c.skew:.6e}\n"
        elif f == "volt":
            c.amplitude = P.value
        elif f == "volt?":
            return f"{c.amplitude:.3f}\n"
        elif f == "offs":
            c.offset = P.value
        elif f == "offs?":
            return f"{c.offset:.3f}\n"
        elif f == "data":
            mem = c.memory()
            mem[P.p - 1:P.p - 1 + P.n] = bytes(1 if b == "1" else 0 for b in P.bits)
        elif f == "data?":
            mem = c.memory()
            bits = "".join("1" if b else "0" for b in mem[P.p - 1:P.p - 1 + P.n])
            return f"#{len(str(P.n))}{P.n}{bits}\n"
        return "\n"


class FakeSession:
    """What visa.ResourceManager().open_resource() returns in simulation."""

    def __init__(self, instrument, clock=None, rec=None):
        self.instrument = instrument
        self.clock = clock
        self.rec = rec
        self.timeout = 2000
        self.closed = False
        self.cleared = 0
        self.plan = {}          # command index within current call -> fault kind
        self.call_cmds = 0
        self.fired = []

    def begin_call(self, plan=None):
        self.plan = dict(plan or {})
        self.call_cmds = 0
        self.fired = []

    def query(self, cmd):
        k = self.call_cmds
        self.call_cmds += 1
        kind = self.plan.get(k)
        if kind:
            self.fired.append(kind)
        if kind == "visa_timeout_before":
            raise _ve.VisaIOError(_vc.StatusCode.error_timeout)
        if kind == "inst_reset":
            self.instrument.power_cycle()
        if kind == "visa_slow" and self.clock is not None:
            self.clock.now += 0.001 * self.timeout * 0.9
            self.clock.covered += 0.001 * self.timeout * 0.9
        if kind == "visa_invalid":
            self.instrument.handle(cmd, apply=False)
            return "\n\n"
        reply = self.instrument.handle(cmd)
        if kind == "visa_timeout_after":
            raise _ve.VisaIOError(_vc.StatusCode.error_timeout)
        return reply

    def write(self, cmd):
        self.query(cmd)

    def read(self):
        return "\n"

    def clear(self):
        self.cleared += 1

    def close(self):
        self.closed = True


def install(instrument, clock=None, rec=None):
    """Replace the `visa` name inside opticomlib.lab by a shim whose ResourceManager
    hands out FakeSessions bound to `instrument`.  Returns the list of sessions."""
    import opticomlib.lab as lab
    sessions = []

    class RM:
        def __init__(self, *a, **k):
            pass

        def open_resource(self, addr, *a, **k):
            s = FakeSession(instrument, clock, rec)
            sessions.append(s)
            return s

        def list_resources(self):
            return ("SIM::1::INSTR",)

    lab.visa = types.SimpleNamespace(ResourceManager=RM, errors=_ve, constants=_vc, VisaIOError=_ve.VisaIOError)
    return sessions


def install_multi(instruments, clock=None, rec=None):
    """Several instruments on the bus: `instruments` maps a VISA address to a SimInstrument; open_resource(addr)
    hands out a FakeSession bound to the instrument at that address.  Returns {addr: [sessions]}."""
    import opticomlib.lab as lab
    sessions = {a: [] for a in instruments}

    class RM:
        def __init__(self, *a, **k):
            pass

        def open_resource(self, addr, *a, **k):
            s = FakeSession(instruments[addr], clock, rec)
            sessions[addr].append(s)
            return s

        def list_resources(self):
            return tuple(instruments)

    lab.visa = types.SimpleNamespace(ResourceManager=RM, errors=_ve, constants=_vc, VisaIOError=_ve.VisaIOError)
    return sessions


VisaIOError = _ve.VisaIOError
