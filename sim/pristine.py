"""A pristine helper process: forked from a run *before* the run touches the library,
it replays only gv reconfigurations and evaluates trusted reference blocks (the
library's own LPF / BPF) in a fresh grandchild fork per request, so that a reference
can never share hidden state (memoised filter designs, stale grids) with the history
under test.  Used by C09 and C10; C14 has its own richer golden server."""
import os
import pickle
import struct
import sys
import warnings

import numpy as np


def _send(fd, obj):
    data = pickle.dumps(obj, protocol=4)
    os.write(fd, struct.pack("<Q", len(data)))
    view = memoryview(data)
    while view:
        n = os.write(fd, view)
        view = view[n:]


def _recv(fd):
    hdr = b""
    while len(hdr) < 8:
        b = os.read(fd, 8 - len(hdr))
        if not b:
            return None
        hdr += b
    n = struct.unpack("<Q", hdr)[0]
    chunks = []
    while n:
        b = os.read(fd, min(n, 1 << 20))
        if not b:
            return None
        chunks.append(b)
        n -= len(b)
    return pickle.loads(b"".join(chunks))


def _serve(rfd, wfd):
    from opticomlib.typing import gv, electrical_signal, optical_signal
    from opticomlib.devices import LPF, BPF
    while True:
        req = _recv(rfd)
        if req is None or req[0] == "quit":
            os._exit(0)
        if req[0] in ("gv", "clean"):
            try:
                with warnings.catch_warnings():
                    warnings.simplefilter("ignore")
                    if req[0] == "clean":
                        gv.clean()
                    else:
                        gv(**req[1])
            except Exception:
                pass
            _send(wfd, ("ok",))
            continue
        r, w = os.pipe()
        pid = os.fork()
        if pid == 0:
            os.close(r)
            try:
                with warnings.catch_warnings():
                    warnings.simplefilter("ignore")
                    if req[0] == "lpf":
                        _, arr, bw = req
                        y = LPF(electrical_signal(arr), bw)
                        ans = ("ok", np.asarray(y.signal))
                    elif req[0] == "bpf":
                        _, sig, noise, npol, bw = req
                        x = optical_signal(sig, noise, n_pol=npol) if noise is not None else optical_signal(sig, n_pol=npol)
                        y = BPF(x, bw)
                        ans = ("ok", np.asarray(y.signal), None if y.noise is None else np.asarray(y.noise))
                    else:
                        ans = ("harness", f"unknown request {req[0]}")
            except BaseException as e:  # noqa
                ans = ("exc", type(e).__name__, str(e)[:200])
            _send(w, ans)
            os._exit(0)
        os.close(w)
        ans = _recv(r)
        os.close(r)
        os.waitpid(pid, 0)
        _send(wfd, ans if ans is not None else ("harness", "pristine grandchild died"))


class Pristine:
    def __init__(self):
        a_r, a_w = os.pipe()
        b_r, b_w = os.pipe()
        sys.stdout.flush()
        pid = os.fork()
        if pid == 0:
            os.close(a_w)
            os.close(b_r)
            try:
                _serve(a_r, b_w)
            finally:
                os._exit(0)
        os.close(a_r)
        os.close(b_w)
        self.pid, self.w, self.r = pid, a_w, b_r
        self.calls = 0

    def ask(self, *req):
        _send(self.w, req)
        ans = _recv(self.r)
        if ans is None:
            raise RuntimeError("pristine server died")
        if ans[0] == "harness":
            raise RuntimeError("pristine process failed: " + str(ans[1]))
        self.calls += 1
        return ans

    def gv(self, kw):
        self.ask("gv", kw)

    def clean(self):
        self.ask("clean")

    def close(self):
        try:
            _send(self.w, ("quit",))
            os.close(self.w)
            os.close(self.r)
            os.waitpid(self.pid, 0)
        except Exception:
            pass
