"""Reference models, written from the property statements, not from the code."""
import numpy as np

# ----------------------------------------------------------------------------
# C04: linear recurring sequence a[m] = a[m-n] xor a[m-t]
# ----------------------------------------------------------------------------
# Documented ITU-T O.150 taps (n, t), transcribed from the PRBS docstring / statement.
PRBS_TAPS = {7: 6, 9: 5, 11: 9, 15: 14, 20: 3, 23: 18, 31: 28}


def effective_seed(order, seed):
    """Seed rule of the statement: reduce mod 2^n; the zero class is replaced by 1
    (with a warning).  seed=None means the documented default 2^n - 1."""
    if seed is None:
        return (1 << order) - 1, False
    s = int(seed) % (1 << order)
    if s == 0:
        return 1, True
    return s, False


class RefLFSR:
    """State is the integer whose bit j is the output j steps before the *next*
    output (bit 0 = next output), exactly the seed convention of the statement."""

    def __init__(self, order, state):
        self.n = order
        self.t = PRBS_TAPS[order]
        self.state = state

    def bits(self, k):
        """Next k outputs as uint8 array; advances the state.  Uses the
        Frobenius-lifted recurrence a[m] = a[m - n*2^j] xor a[m - t*2^j] to extend
        the sequence in large vector steps (independent of the shift-register
        formulation used by the library)."""
        n, t = self.n, self.t
        # history h[0..n-1] = a[-(n-1)] ... a[0]  where a[0] is the next output (bit 0)
        hist = np.array([(self.state >> (n - 1 - i)) & 1 for i in range(n)], dtype=np.uint8)
        total = n + k
        a = np.empty(total, dtype=np.uint8)
        a[:n] = hist
        have = n
        while have < total:
            j = 0
            while n * (2 << j) <= have:
                j += 1
            nn, tt = n << j, t << j
            m = min(tt, total - have)
            a[have:have + m] = a[have - nn:have - nn + m] ^ a[have - tt:have - tt + m]
            have += m
        out = a[n - 1:n - 1 + k].copy()
        # new state: bit 0 = a[k] (next output), bit j = a[k-j]
        new_hist = a[k:k + n]  # a[k-(n-1)] .. a[k] in sequence order
        st = 0
        for i in range(n):
            st |= int(new_hist[n - 1 - i]) << i
        self.state = st
        return out

    def step_naive(self):
        """One step by the literal recurrence (cross-check of bits())."""
        n, t = self.n, self.t
        out = self.state & 1
        new = ((self.state >> (n - 1)) ^ (self.state >> (t - 1))) & 1
        self.state = ((self.state << 1) | new) & ((1 << n) - 1)
        return out

    def back(self):
        """One step backwards: previous state."""
        n, t = self.n, self.t
        new = self.state & 1
        rest = self.state >> 1            # old bits 0..n-2
        # new = old[n-1] ^ old[t-1] ; old[t-1] = rest bit t-1 (t-1 <= n-2)
        top = new ^ ((rest >> (t - 1)) & 1)
        self.state = rest | (top << (n - 1))


# ---- GF(2) matrices as lists of row bitmasks ---------------------------------
def gf2_identity(n):
    return [1 << i for i in range(n)]


def gf2_mul(A, B, n):
    """C = A*B over GF(2); row i of C = xor of rows j of B where A[i] has bit j."""
    C = []
    for i in range(n):
        r, a, j = 0, A[i], 0
        while a:
            if a & 1:
                r ^= B[j]
            a >>= 1
            j += 1
        C.append(r)
    return C


def gf2_pow(A, e, n):
    R = gf2_identity(n)
    P = A
    while e:
        if e & 1:
            R = gf2_mul(R, P, n)
        P = gf2_mul(P, P, n)
        e >>= 1
    return R


def gf2_apply(A, v, n):
    """y = A*v where v, y are bitmasks (bit j = component j)."""
    y = 0
    for i in range(n):
        if bin(A[i] & v).count("1") & 1:
            y |= 1 << i
    return y


def gf2_rank(A, n):
    rows = list(A)
    rank = 0
    for bit in range(n):
        piv = None
        for r in range(rank, len(rows)):
            if (rows[r] >> bit) & 1:
                piv = r
                break
        if piv is None:
            continue
        rows[rank], rows[piv] = rows[piv], rows[rank]
        for r in range(len(rows)):
            if r != rank and (rows[r] >> bit) & 1:
                rows[r] ^= rows[rank]
        rank += 1
    return rank


def companion_from_statement(order):
    """One-step map of the statement: new bit0 = bit(n-1) xor bit(t-1), bit j+1 = old bit j.
    Row i is the mask of input bits feeding output bit i."""
    n, t = order, PRBS_TAPS[order]
    rows = [(1 << (n - 1)) | (1 << (t - 1))]
    for i in range(1, n):
        rows.append(1 << (i - 1))
    return rows


def prime_factors(x):
    f, p = [], 2
    while p * p <= x:
        if x % p == 0:
            f.append(p)
            while x % p == 0:
                x //= p
        p += 1 if p == 2 else 2
    if x > 1:
        f.append(x)
    return f
