"""Hand-written mutants, one per mechanism a claimed property relies on.
(name, property, file relative to the repo root, old text, new text)"""

T = "opticomlib/typing.py"
D = "opticomlib/devices.py"
P = "opticomlib/ppm.py"
L = "opticomlib/lab.py"
U = "opticomlib/utils.py"

MUTANTS = [
    # ---------------- C15 ----------------
    ("c15_radd_order_len3", "C15", T,
     "        out = np.concatenate((other, self.data))\n        return binary_sequence(out)",
     "        out = np.concatenate((other, self.data)) if other.size != 3 else np.concatenate((self.data, other))\n        return binary_sequence(out)"),
    ("c15_getitem_view", "C15", T,
     "        return binary_sequence(self.data[slice])",
     "        out = binary_sequence.__new__(binary_sequence); out.data = np.atleast_1d(self.data[slice]); out.execution_time = 0\n        return out"),
    ("c15_invert_inplace_long", "C15", T,
     "        return binary_sequence(~self.data.astype(bool))",
     "        if self.data.size > 200:\n            self.data ^= 1\n            return self\n        return binary_sequence(~self.data.astype(bool))"),
    ("c15_ctor_accepts_2", "C15", T,
     "        if not np.all((data == 0) | (data == 1)): \n            raise ValueError(\"The array must contain only 0's and 1's!\")\n        if data.ndim > 1:",
     "        if not np.all((data == 0) | (data == 1) | (data == 2)): \n            raise ValueError(\"The array must contain only 0's and 1's!\")\n        if data.ndim > 1:"),
    ("c15_gt_ignores_noise", "C15", T,
     "        return binary_sequence(self.abs() > other.abs())",
     "        return binary_sequence(self.abs('signal') > other.abs())"),
    ("c15_lt_le", "C15", T,
     "        return binary_sequence(self.abs() < other.abs())",
     "        return binary_sequence(self.abs() <= other.abs())"),
    # ---------------- C04 ----------------
    ("c04_tap23_17", "C04", D, "        23: [23, 18],", "        23: [23, 17],"),
    ("c04_tap9_4", "C04", D, "        9: [9, 5],", "        9: [9, 4],"),
    ("c04_state_before_last_shift_long", "C04", D,
     "    if not return_seed:\n        return output\n    return output, lfsr",
     "    if not return_seed:\n        return output\n    if len > 3000:\n        return output, (lfsr >> 1) | ((int(prbs[-1]) ^ 0) << (order - 1)) if False else lfsr ^ 1\n    return output, lfsr"),
    ("c04_negative_seed_abs", "C04", D,
     "    seed = seed % (2**order) if seed is not None else (1 << order) - 1",
     "    seed = abs(seed) % (2**order) if seed is not None else (1 << order) - 1"),
    ("c04_zero_seed_no_warning", "C04", D,
     "        seed = 1\n        warnings.warn(",
     "        seed = 1\n        (lambda *a, **k: None)("),
    ("c04_mask31_drops_topbit", "C04", D,
     "        lfsr = ((lfsr << 1) | new) & (1 << order) - 1",
     "        lfsr = ((lfsr << 1) | new) & (1 << min(order, 30)) - 1"),
    ("c04_len_zero_accepted", "C04", D,
     "        elif len <= 0:",
     "        elif len < 0:"),
]
