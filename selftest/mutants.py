"""Sensitivity self-test: apply small semantic mutations to a scratch copy of the
library and confirm that the property's quick check reports a violation.

usage: /venv/bin/python selftest/mutants.py [--suite] [--only NAME[,NAME]] [--prop C04] [--benign]
(--benign runs selftest/benign_table.py instead: property-preserving refactors that must NOT alarm)
Each mutant is (name, property, file, old, new).  Scratch copies live under /dev/shm
and are removed straight away.  With --suite the repository's own tests are run on the
mutated copy first (a mutant that the suite already kills proves nothing).
"""
import json
import os
import shutil
import subprocess
import sys
import tempfile
import time

HERE = os.path.dirname(os.path.abspath(__file__))
VERIF = os.path.dirname(HERE)
sys.path.insert(0, HERE)
from mutant_table import MUTANTS  # noqa: E402
from benign_table import BENIGN  # noqa: E402


def run(m, suite=False, tier="quick"):
    name, prop, rel, old, new = m
    scratch = tempfile.mkdtemp(prefix="mut-", dir="/dev/shm")
    try:
        shutil.copytree("/repo/opticomlib", os.path.join(scratch, "opticomlib"))
        shutil.copytree("/repo/tests", os.path.join(scratch, "tests"))
        p = os.path.join(scratch, rel)
        s = open(p).read()
        if s.count(old) < 1:
            return {"name": name, "prop": prop, "status": "PATCH-DOES-NOT-APPLY"}
        s = s.replace(old, new, 1)
        open(p, "w").write(s)
        out = {"name": name, "prop": prop}
        if suite:
            t = subprocess.run(["/venv/bin/python", "-B", "-m", "pytest", "-q", "-x", "-p", "no:cacheprovider",
                                "tests"], cwd=scratch, capture_output=True, text=True,
                               env=dict(os.environ, PYTHONPATH=scratch, MPLBACKEND="Agg"), timeout=900)
            out["suite_passes"] = t.returncode == 0
            out["suite_tail"] = t.stdout.strip().splitlines()[-1:] if t.stdout else []
        t0 = time.time()
        env = dict(os.environ, VERIF_REPO=scratch, VERIF_MIN_BUDGET="60",
                   VERIF_REPLAY_DIR=os.path.join(scratch, "replays"), VERIF_EVIDENCE_DIR=os.path.join(scratch, "evidence"))
        c = subprocess.run([os.path.join(VERIF, "check"), prop, tier, "--no-selftest"], env=env,
                           capture_output=True, text=True, timeout=3600)
        out["rc"] = c.returncode
        out["wall"] = round(time.time() - t0, 1)
        lines = c.stdout.splitlines()
        out["oracle"] = next((l.strip() for l in lines if l.startswith("violation in task")), "")[:160]
        out["detail"] = next((l.strip() for l in lines if l.startswith("  ") and "minimised" not in l), "")[:200]
        out["status"] = "KILLED" if c.returncode == 1 else ("HARNESS-ERROR" if c.returncode == 2 else "MISSED")
        if c.returncode == 2:
            out["detail"] = (c.stdout + c.stderr)[-600:]
        return out
    finally:
        shutil.rmtree(scratch, ignore_errors=True)


def main():
    args = sys.argv[1:]
    suite = "--suite" in args
    only = None
    prop = None
    tier = "quick"
    for k, a in enumerate(args):
        if a == "--only":
            only = set(args[k + 1].split(","))
        if a == "--prop":
            prop = set(args[k + 1].split(","))
        if a == "--tier":
            tier = args[k + 1]
    res = []
    benign = "--benign" in args
    for m in (BENIGN if benign else MUTANTS):
        if only and m[0] not in only:
            continue
        if prop and m[1] not in prop:
            continue
        r = run(m, suite, tier)
        res.append(r)
        print(json.dumps(r))
        sys.stdout.flush()
    if benign:
        # property-preserving refactors: the check must stay silent (exit 0)
        alarms = [r["name"] for r in res if r.get("rc") != 0]
        print(f"SUMMARY benign refactors: {len(res) - len(alarms)}/{len(res)} silent; false alarms: {alarms}")
        sys.exit(1 if alarms else 0)
    killed = sum(r["status"] == "KILLED" for r in res)
    print(f"SUMMARY killed {killed}/{len(res)}; missed: {[r['name'] for r in res if r['status'] != 'KILLED']}")


if __name__ == "__main__":
    main()
