"""Property-preserving refactors: each must NOT make the property's check alarm.
(name, property, file, old, new) - same format as mutant_table.MUTANTS."""

T = "opticomlib/typing.py"
D = "opticomlib/devices.py"
P = "opticomlib/ppm.py"
L = "opticomlib/lab.py"
U = "opticomlib/utils.py"

BENIGN = [
    # PD: thermal noise drawn as the sum of two independent half-variance draws (same total variance)
    ("b_c09_thermal_split_in_two", "C09", D,
     "        i_T = np.random.normal(0, S_T**0.5, input.len())  # thermal noise current, in [A]",
     "        i_T = np.random.normal(0, (S_T/2)**0.5, input.len()) + np.random.normal(0, (S_T/2)**0.5, input.len())"),
    # PD: standard normal draws scaled afterwards
    ("b_c09_randn_scaled", "C09", D,
     "        i_N = np.random.normal(0, S_N**0.5, input.len())  # shot noise current, in [A]",
     "        i_N = S_N**0.5 * np.random.randn(input.len())  # shot noise current, in [A]"),
    # PD: another (seedable but unseamed) generator with the right variances -> statistical fallback must pass
    ("b_c09_generator_object", "C09", D,
     "        i_T = np.random.normal(0, S_T**0.5, input.len())  # thermal noise current, in [A]",
     "        i_T = np.random.default_rng(np.random.randint(2**31)).normal(0, S_T**0.5, input.len())"),
    # EDFA: four separate 1-D draws instead of one (4, N) draw
    ("b_c10_four_draws", "C10", D,
     "    ase = np.sqrt(P_ase/4) * np.random.randn(4, input.len())",
     "    ase = np.sqrt(P_ase/4) * np.vstack([np.random.randn(input.len()) for _ in range(4)])"),
    # EDFA: complex draws via normal() with explicit scale
    ("b_c10_normal_with_scale", "C10", D,
     "    ase = np.sqrt(P_ase/4) * np.random.randn(4, input.len())",
     "    ase = np.random.normal(0, np.sqrt(P_ase/4), (4, input.len()))"),
    # EDFA: a unitary mix of the two polarisations' ASE (covariance unchanged)
    ("b_c10_rotated_ase", "C10", D,
     "    ase = ase[:2] + 1j*ase[2:]",
     "    ase = ase[:2] + 1j*ase[2:]\n    ase = np.array([[0.6, 0.8], [-0.8, 0.6]]) @ ase"),
    # HDD: choose among the ON slots through an index draw
    ("b_c12_choice_by_index", "C12", P,
     "        output[i*M + np.random.choice(j)]=1  # select one ON slot randomly for each symbol with more than one ON slots",
     "        output[i*M + j[np.random.randint(len(j))]]=1"),
    # encoder: explicit loop-free integer conversion via bit shifts
    ("b_c12_encoder_shift", "C12", P,
     "    decimal = np.sum(input.reshape(-1,k)*2**np.arange(k)[::-1], axis=-1) # convert bits to decimal",
     "    decimal = (input.reshape(-1,k).astype(np.int64) << np.arange(k)[::-1]).sum(axis=-1) # convert bits to decimal"),
    # binary_sequence: validate on the uint8 copy's source with isin
    ("b_c15_isin_validation", "C15", T,
     "        if not np.all((data == 0) | (data == 1)): \n            raise ValueError(\"The array must contain only 0's and 1's!\")\n        if data.ndim > 1:",
     "        if not np.all(np.isin(data, (0, 1))): \n            raise ValueError(\"The array must contain only 0's and 1's!\")\n        if data.ndim > 1:"),
    # invert through arithmetic instead of logical not
    ("b_c15_invert_arith", "C15", T,
     "        return binary_sequence(~self.data.astype(bool))",
     "        return binary_sequence(1 - self.data.astype(np.int8))"),
    # signals: subtraction written as addition of the negated operand
    ("b_c01_sub_via_neg", "C01", T,
     "        return self.__class__(self.signal - other.signal, self.noise - other.noise, dtype=dtype)",
     "        return self.__class__(self.signal + (-other.signal), self.noise + (-other.noise), dtype=dtype)"),
    # copy() implemented directly
    ("b_c01_copy_direct", "C01", T,
     "        if n is None: \n            n = self.len()\n        return self[:n]",
     "        if n is None: \n            return self[:]\n        return self[0:n]"),
    # PRBS: state kept in separate variables, same recurrence
    ("b_c04_loop_refactor", "C04", D,
     "        prbs[index] = lfsr & 1\n        new = ((lfsr >> tap1) ^ (lfsr >> tap2)) & 1\n        lfsr = ((lfsr << 1) | new) & (1 << order) - 1\n        index += 1",
     "        prbs[index] = lfsr % 2\n        new = ((lfsr >> int(tap1)) & 1) ^ ((lfsr >> int(tap2)) & 1)\n        lfsr = ((lfsr * 2) + new) % (2**order)\n        index += 1"),
    # gv: derived quantities computed in another order, N bookkeeping through a helper expression
    ("b_c14_gv_reordered", "C14", T,
     "        self.wavelength = wavelength\n        self.f0 = c/wavelength\n\n        if kargs:",
     "        self.f0 = c/wavelength\n        self.wavelength = wavelength\n\n        if kargs:"),
    # DM: transfer function computed once and reused for retH
    ("b_c14_dm_reuse_H", "C14", D,
     "    if retH:\n        H = np.exp(-1j * input.w() ** 2 * D / 2)\n        return output, fftshift(H)",
     "    if retH:\n        return output, fftshift(H)"),
    # GET_EYE: fewer k-means restarts (estimates may differ slightly, bands and equivariance must still hold)
    ("b_c17_fewer_restarts", "C17", D,
     "    kmeans = sk.KMeans(n_clusters=2, n_init=10) # A model of sklearn to separete clusters",
     "    kmeans = sk.KMeans(n_clusters=2, n_init=6) # A model of sklearn to separete clusters"),
    # driver: command text assembled differently, same bytes
    ("b_c20_header_format", "C20", L,
     "                self._query(f':DIG{ch}:PATT:DATA {p},{n},#{k}{n}{data_}')",
     "                self._query(':DIG%d:PATT:DATA %d,%d,#%d%d%s' % (ch, p, n, k, n, data_))"),
    # driver: clamp through minimum/maximum
    ("b_c20_skew_minmax", "C20", L,
     "            skew = skew.clip(self.MIN_SKEW, self.MAX_SKEW)\n",
     "            skew = np.minimum(np.maximum(skew, self.MIN_SKEW), self.MAX_SKEW)\n"),
    # driver: channel normalisation through asarray/atleast_1d, clamp through minimum/maximum
    ("b_c20_channels_asarray", "C20", L,
     "            if isinstance(channels, int):\n                channels = np.array([channels], dtype=int)\n            else:\n                channels = np.array(channels, dtype=int)\n",
     "            channels = np.atleast_1d(np.asarray(channels)).astype(int)\n"),
    # PRBS: unsupported orders refused through a membership test written differently, still before any allocation
    ("b_c04_order_check_keys", "C04", D,
     "    if order not in taps.keys():",
     "    if order not in tuple(taps):"),
    # comparison: lengths checked through shapes
    ("b_c15_compare_shape_check", "C15", T,
     "        return binary_sequence(self.abs() > other.abs())",
     "        return binary_sequence((self.abs() > other.abs()).astype(np.uint8))"),
    # SYNC: direct correlation instead of FFT convolution
    ("b_c20_sync_np_correlate", "C20", L,
     "    corr = sg.fftconvolve(signal_rx[:2*l-1], signal_tx[l::-1], mode='valid')",
     "    corr = np.correlate(signal_rx[:2*l-1], signal_tx, mode='valid')"),
]
