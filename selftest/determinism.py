"""Large-sample determinism self-test of the simulator (DESIGN 2.8).

usage: /venv/bin/python selftest/determinism.py [N] [ids...]
For every property, the first N run specs (default 200) are executed in three fresh
interpreters: (PYTHONHASHSEED=0, 16 workers), (PYTHONHASHSEED=12345, 1 worker... capped),
(PYTHONHASHSEED=777, 5 workers), each under two master seeds, and the event-log digests are
compared pairwise.  Exit 0 iff all agree.
"""
import json
import os
import subprocess
import sys

VERIF = os.path.dirname(os.path.dirname(os.path.abspath(__file__)))
IDS = ["C01", "C04", "C09", "C10", "C12", "C14", "C15", "C17", "C20"]


def digests(prop, n, hashseed, workers, master):
    env = dict(os.environ, VERIF_HASHSEED=str(hashseed), VERIF_WORKERS=str(workers), VERIF_SEED=str(master))
    p = subprocess.run([os.path.join(VERIF, "check"), prop, "quick", "--digests", f"0:{n}"], env=env,
                       capture_output=True, text=True, timeout=7200)
    for line in p.stdout.splitlines():
        if line.startswith("DIGESTS "):
            return json.loads(line[8:])
    raise RuntimeError(p.stdout[-500:] + p.stderr[-500:])


def main():
    args = sys.argv[1:]
    n = int(args[0]) if args and args[0].isdigit() else 200
    ids = [a for a in args if not a.isdigit()] or IDS
    bad = 0
    for prop in ids:
        for master in (0, 4242):
            a = digests(prop, n, 0, 16, master)
            b = digests(prop, min(n, 60), 12345, 1, master)
            c = digests(prop, n, 777, 5, master)
            diff = [k for k in range(len(b)) if a[k] != b[k]] + [k for k in range(len(c)) if a[k] != c[k]]
            errs = [k for k, d in enumerate(a) if str(d).startswith("ERR")]
            print(f"{prop} master={master}: {len(a)} runs x3 configurations, mismatches={len(diff)}, errors={len(errs)}")
            sys.stdout.flush()
            bad += len(diff) + len(errs)
    print("DETERMINISM", "OK" if bad == 0 else f"FAILED ({bad})")
    sys.exit(0 if bad == 0 else 1)


if __name__ == "__main__":
    main()
