"""C09 - PD is a square-law detector with unit DC gain and the documented noise powers.

The RNG is behind a seam (sim/seams.ScriptedRNG): each PD case is executed as a bundle
of twin runs whose Gaussian draws are served by the simulator - all zero, one-hot per
draw unit, one impulse per unit, all ones, and real seeded streams - so the noise terms
are *identified* exactly instead of being estimated: which terms exist, their mean,
their variance, that they enter white, and that the signal part ignores the draws.
"""
import random
import warnings

import numpy as np
from scipy.constants import k as kB, e as qe

from sim import core, seams, common
from sim.core import Violation
from sim.seams import ScriptedRNG
from sim.pristine import Pristine

PROPERTY = "C09"
RULE = ("seeded bench histories: gv reconfigurations, then PD bundles (input field CW/tone/random x 1/2 polarisations "
        "x with/without optical noise x r,T,R_load,BW,i_dark,Fn x seven include_noise spellings in random case), each "
        "bundle = zero + one-hot(k) + impulse(k) + const + same-seed real twins plus phase/unitary/scaling twins, with "
        "rng_reseed / freeze faults and invalid-argument calls in between; distinct = (include_noise, n_pol, noise "
        "present, fs decade, BW/fs class, field kind) signatures in runs with >=3 successful bundles")
WALL = {"quick": 300, "thorough": 900, "replay": 600}
BLOCK = {"quick": 100000, "thorough": 4096}
SELFTEST = {"quick": 16, "thorough": 100}
COMPONENTS_REAL = ["opticomlib.devices.PD", "opticomlib.devices.LPF", "opticomlib.typing.optical_signal/"
                   "electrical_signal/gv", "opticomlib.utils.idb", "scipy.signal.sosfiltfilt"]
COMPONENTS_STUB = ["np.random.normal/randn/standard_normal/randint/choice inside Layer-B twins (ScriptedRNG)",
                   "opticomlib.utils.tm (SimClock)"]
ASSUMPTIONS = [
    "the library's own LPF (C11's subject) is trusted as the output filter, but the reference is evaluated in a "
    "pristine process (only the gv history replayed) after every grid change and for 30% of the other bundles, so "
    "a stale/memoised filter design cannot agree with itself; physical constants from scipy.constants",
    "Gaussian draws may be split or merged by a refactor: only the sum of squared effective scales is asserted",
    "R_load = 0 and T = 0 edge values: only negative values are required to raise",
    "if the seam sees no request although the output is noisy (generator moved), the bundle falls back to seeded "
    "six-sigma variance sweeps and records seam_bypassed",
]
N_RUNS = {"quick": 2400, "thorough": 20000}
NONTRIVIAL_OPS = 3
INCLUDES = ["ase-only", "thermal-only", "shot-only", "ase-thermal", "ase-shot", "thermal-shot", "all"]


def tasks(tier, master):
    specs = [{"kind": "run", "i": i, "seed": core.derive_seed(master, PROPERTY, tier, i), "tier": tier}
             for i in range(N_RUNS[tier])]
    for j in range(2 if tier == "quick" else 12):
        specs.append({"kind": "long", "i": 900000 + j, "seed": core.derive_seed(master, PROPERTY, "long", j),
                      "n": (1 << 22) + 4096 * (j + 1) + j})
    return specs


def _case(s, rng):
    return "".join(c.upper() if rng.random() < 0.4 else c for c in s)


def gen_field(rng):
    return {"n": rng.choice([32, 64, 100, 257, 512, 1000, 2048, 4096]) if rng.random() < 0.5 else rng.randint(20, 3000),
            "field": rng.choice(["cw", "cw", "tone", "random", "nrz"]),
            "npol": rng.choice([1, 2]), "innoise": rng.choice([None, "complex", "complex", "real"]),
            "P": 10 ** rng.uniform(-5, -1), "inseed": rng.getrandbits(32),
            "nlevel": 10 ** (rng.uniform(-6, -4) if rng.random() < 0.3 else rng.uniform(-3.5, -0.5)),
            "yzero": rng.random() < 0.15, "layout": rng.choice(["C", "C", "C", "F", "strided", "neg"])}


def generate(seed, tier):
    rng = random.Random(seed)
    ops = [common.gen_gv_op(rng)] if rng.random() < 0.85 else []
    w = {"pd": 8, "gv": 2, "bad": 2, "reseed": rng.choice([0, 1, 2]), "freeze": rng.choice([0, 1]),
         "clean": rng.choice([0, 1]), "leak": rng.choice([0, 0, 1]),
         "interleave": rng.choice([0, 1])}
    kinds = [k for k, c in w.items() for _ in range(c)]
    last_n = 64
    for _ in range(rng.randint(4, 9)):
        k = rng.choice(kinds)
        if k == "pd":
            op = {"op": "pd"}
            op.update(gen_field(rng))
            if rng.random() < 0.4:
                op["n"] = last_n        # same record length as the previous (possibly rejected) call
            last_n = op["n"]
            op.update({"r": rng.choice([1.0, 1, 0.5, rng.uniform(0.05, 1.0)]),
                       "T": rng.choice([300.0, 0, 77, rng.uniform(1, 400)]),
                       "R_load": rng.choice([50.0, 50, 1e3, rng.uniform(10, 1e4)]),
                       "BWf": rng.choice([rng.uniform(0.03, 0.45), rng.uniform(0.45, 0.497), rng.uniform(0.004, 0.03)])
                       if rng.random() < 0.3 else rng.uniform(0.03, 0.45),
                       "BWabs": rng.choice([None, 0.5e9, 2e9, 5e9, 10e9]),
                       "iso": rng.random() < 0.3, "i_dark": rng.choice([10e-9, 0.0, 1e-6, 1e-12]),
                       "Fn": rng.choice([0, 0.0, 3.0, rng.uniform(0, 10)]),
                       "include": _case(rng.choice(INCLUDES), rng), "seed": rng.getrandbits(31),
                       "extras": rng.sample(["phase", "unitary", "scale_r", "scale_R", "scale_amp"], rng.randint(1, 3))})
            ops.append(op)
        elif k == "gv":
            ops.append(common.gen_gv_op(rng))
            if rng.random() < 0.35:
                # fs given explicitly and NOT a multiple of the slot rate: the devices must use gv.fs, not sps*R
                R_ = rng.choice([1e9, 10e9, 2.5e9])
                ops[-1] = {"op": "gv", "kw": {"R": R_, "fs": R_ * rng.choice([2.5, 3.5, 2.6, 7.3, 12.75])}}
        elif k == "bad":
            ops.append({"op": "bad", "what": rng.choice(["r0", "r_neg", "r_big", "r_list", "r_str", "T_neg", "T_str",
                                                         "R_neg", "R_list", "inc_int", "inc_bad", "inc_none", "in_es",
                                                         "in_arr", "inc_words", "inc_words", "inc_words"]),
                        "w": rng.choice(["shot-ase", "thermal-ase", "only-ase", "all-all", "ase-shot-ase", "ase", "shot",
                                         "thermal", "shot-thermal", "ase-thermal-shot", "only", "ASE-ALL", "all-only",
                                         "ase_only", "ase only", " all", ""]),
                        "n": rng.choice([last_n, last_n, 64])})
            last_n = ops[-1]["n"]
        elif k == "reseed":
            ops.append({"op": "reseed", "s": rng.getrandbits(31)})
        elif k == "freeze":
            ops.append({"op": "freeze", "on": rng.random() < 0.6})
        elif k == "clean":
            ops.append({"op": "clean"})      # back to the default grid
        elif k == "leak":
            ops.append({"op": "leak", "upto": rng.choice([40, 70, 140]), "every": rng.choice([1, 1, 3])})
        elif k == "interleave":
            ops.append({"op": "interleave", "what": rng.choice(["eye", "eye", "prbs", "dac"])})
    return {}, ops


def simplify_op(op):
    if op.get("op") == "pd":
        if op["n"] > 64:
            yield dict(op, n=64)
        if op["npol"] == 2:
            yield dict(op, npol=1)
        if op["innoise"]:
            yield dict(op, innoise=None)
        if op["field"] != "cw":
            yield dict(op, field="cw")
        if len(op["extras"]) > 0:
            yield dict(op, extras=[])
        if op["include"].lower() != "all":
            yield dict(op, include="all")


def build_field(op, fs):
    """-> signal array ((n,) or (2,n) complex), noise array or None"""
    rs = np.random.RandomState(op["inseed"])
    n, npol = op["n"], op["npol"]
    A = np.sqrt(op["P"])
    t = np.arange(n)
    rows = []
    for p in range(npol):
        ph = rs.uniform(0, 2 * np.pi)
        if op["field"] == "cw":
            x = A * np.exp(1j * ph) * np.ones(n)
        elif op["field"] == "tone":
            x = A * np.exp(1j * (2 * np.pi * rs.uniform(0.01, 0.2) * t + ph))
        elif op["field"] == "nrz":
            sps = max(2, n // 16)
            b = rs.randint(0, 2, n // sps + 1)
            x = A * np.exp(1j * ph) * np.kron(b, np.ones(sps))[:n] + 0.05 * A
        else:
            x = A * (rs.randn(n) + 1j * rs.randn(n)) / np.sqrt(2)
        rows.append(x * (1.0 if p == 0 else rs.uniform(0.2, 1.0)))
    if npol == 2 and op.get("yzero"):
        rows[1] = np.zeros(n, dtype=complex)      # x-only two-polarisation record (e.g. behind an x-polarised MZM)
    sig = rows[0] if npol == 1 else np.vstack(rows)
    noise = None
    if op["innoise"]:
        s = A * op["nlevel"]
        if op["innoise"] == "complex":
            noise = s * (rs.randn(*sig.shape) + 1j * rs.randn(*sig.shape)) / np.sqrt(2)
        else:
            noise = s * rs.randn(*sig.shape)
    return sig, noise


class Bench:
    def __init__(self, rec):
        self.pristine = Pristine()        # forked before this run touches the library
        self.after_gv = True
        from opticomlib.devices import PD, LPF
        from opticomlib.typing import optical_signal, electrical_signal, gv
        self.PD, self.LPF, self.O, self.E, self.gv = PD, LPF, optical_signal, electrical_signal, gv
        self.rec = rec
        self.clock = seams.install_clock(0)
        self.frozen = False

    def apply(self, op, step):
        self.rec.n_ops += 1
        with warnings.catch_warnings():
            warnings.simplefilter("ignore")
            out = getattr(self, "op_" + op["op"])(op)
        self.rec.log(step, op["op"], out)

    def op_gv(self, op):
        common.apply_gv(op["kw"])
        self.pristine.gv(op["kw"])
        self.after_gv = True
        self.rec.fault("gv_reconf")
        return f"{self.gv.fs:.3e}"

    def op_clean(self, op):
        self.gv.clean()
        self.pristine.clean()
        self.after_gv = True
        self.rec.fault("gv_clean")
        return f"{self.gv.fs:.3e}"

    def op_interleave(self, op):
        """Other library blocks are used between two calls of the device (a link loop: amplify/detect, estimate the
        eye, generate the next pattern ...): every call must still draw fresh noise."""
        from opticomlib.devices import GET_EYE, PRBS, DAC
        x = self.O(np.exp(1j * np.arange(64)) * 0.01)
        sps = int(self.gv.sps)

        def foreign():
            with seams.stdout_tap():
                if op["what"] == "eye":
                    b = np.tile([0, 1, 1, 0, 1, 0, 0, 1], 8)
                    w = np.kron(b, np.ones(sps)) + 0.01 * np.cos(np.arange(64 * sps))
                    try:
                        GET_EYE(w, sps_resamp=32)
                    except Exception:
                        pass        # the estimator itself is C17's subject; only its side effects matter here
                elif op["what"] == "prbs":
                    PRBS(7, 40)
                else:
                    DAC(PRBS(7, 16), 0.0, 1.0, "nrz")
        outs = []
        for k in range(3):
            outs.append(np.array(self.PD(x, 0.3 * float(self.gv.fs)).noise))
            foreign()
        if not np.any(outs[0]):
            return "no-noise"
        for i, j in ((0, 1), (1, 2), (0, 2)):
            if np.array_equal(outs[i], outs[j]):
                raise Violation("C09/variance", f"PD calls {i} and {j} of a loop that also uses {op['what']} carry the identical "
                                            f"noise realisation: the noise is not drawn afresh", "fresh/" + op["what"])
        self.rec.fault("foreign_calls_interleaved")
        return "fresh"

    def op_leak(self, op):
        """Rejected calls pile up on the library's timer stack; a valid detection must keep working and keep giving
        the same result (all draws served as zeros) at every depth."""
        x = self.O(np.exp(1j * np.arange(48)) * 0.01)
        bw = 0.3 * float(self.gv.fs)

        def reject():
            try:
                self.PD(x, bw, include_noise="everything")
            except (TypeError, ValueError):
                pass

        def valid():
            with ScriptedRNG("zero"):
                y = self.PD(x, bw)
            return core.array_digest(np.asarray(y.signal)) + core.array_digest(np.asarray(y.noise))
        return common.leak_sweep(reject, valid, op["upto"], "C09/len", self.rec, op.get("every", 1), "PD call")

    def _bw(self, op):
        fs = float(self.gv.fs)
        b = op.get("BWabs")
        if b is not None and 0.02 * fs < b < 0.45 * fs:
            return float(b)
        return op["BWf"] * fs

    def _lpf_ref(self, arr, bw, isolated):
        """The trusted output filter: the library's own LPF, optionally executed in a pristine process."""
        if isolated:
            ans = self.pristine.ask("lpf", np.asarray(arr, dtype=float), bw)
            if ans[0] != "ok":
                raise RuntimeError(f"pristine LPF failed: {ans}")
            self.rec.probe("reference filter evaluated in a pristine process")
            return np.asarray(ans[1], dtype=float)
        return np.asarray(self.LPF(self.E(arr), bw).signal, dtype=float)

    def op_reseed(self, op):
        np.random.seed(op["s"])
        self.rec.fault("rng_reseed")
        return op["s"]

    def op_freeze(self, op):
        self.frozen = bool(op["on"])
        return str(self.frozen)

    # ------------------------------------------------------------------------------------
    def _pd(self, x, op, **over):
        kw = dict(BW=self._bw(op), r=op["r"], T=op["T"], R_load=op["R_load"],
                  include_noise=op["include"], i_dark=op["i_dark"], Fn=op["Fn"])
        kw.update(over)
        return self.PD(x, **kw)

    def _mk(self, sig, noise, layout=None):
        sig, noise = common.relayout(sig, layout), common.relayout(noise, layout)
        x = self.O(sig, noise) if noise is not None else self.O(sig)
        if self.frozen:
            seams.set_writeable([x.signal, x.noise], False)
        return x

    def op_pd(self, op):
        fs = float(self.gv.fs)
        sig, noise = build_field(op, fs)
        n = op["n"]
        x = self._mk(sig, noise, op.get("layout"))
        dig0 = (seams.buf_digest(x.signal), seams.buf_digest(x.noise))
        inc = op["include"].lower()
        th = "thermal" in inc or inc == "all"
        sh = "shot" in inc or inc == "all"
        ase = "ase" in inc or inc == "all"
        r, T, R, idk, Fn = float(op["r"]), float(op["T"]), float(op["R_load"]), op["i_dark"], op["Fn"]
        what = f"PD/{inc}/pol{op['npol']}/{'noise' if noise is not None else 'clean'}"
        B = fs / 2

        def chk_out(y, tag):
            if type(y) is not self.E:
                raise Violation("C09/len", f"{what}/{tag}: PD returned {type(y).__name__}", "type")
            if y.signal.shape != (n,) or (y.noise is not None and y.noise.shape != (n,)):
                raise Violation("C09/len", f"{what}/{tag}: output length {y.signal.shape} for {n} input samples", "len")

        # ---- zero twin: the deterministic skeleton ------------------------------------------
        with ScriptedRNG("zero") as z:
            y0 = self._pd(x, op)
        chk_out(y0, "zero")
        units = z.n_units
        reqs = list(z.requests)
        tripped = list(z.tripped)
        n0 = np.zeros(n) if y0.noise is None else np.asarray(y0.noise, dtype=float)
        s0 = np.asarray(y0.signal)
        if np.iscomplexobj(s0) and np.abs(s0.imag).max() > 0:
            raise Violation("C09/square-law", f"{what}: signal part is complex", "complex")
        s0 = s0.real.astype(float)

        # does every draw go through the seam?  (a second zero twin must reproduce the first exactly)
        with ScriptedRNG("zero") as z2:
            y0b = self._pd(x, op)
        tripped += list(z2.tripped)
        bypass = bool(tripped) or not np.array_equal(np.asarray(y0b.noise), np.asarray(y0.noise))
        if bypass and not tripped:
            # a draw that escapes the seam makes every execution differ; if a third zero twin reproduces the second
            # exactly, nothing escapes and it is the FIRST call that carried something over from the history before
            # it (state left behind by an earlier, possibly rejected, call): keep it and let the checks below judge it
            with ScriptedRNG("zero") as z3:
                y0c = self._pd(x, op)
            if not z3.tripped and np.array_equal(np.asarray(y0c.noise), np.asarray(y0b.noise)) \
                    and np.array_equal(np.asarray(y0c.signal), np.asarray(y0b.signal)):
                bypass = False
                self.rec.probe("first zero twin differs from two identical later ones (history carried in)")
        if tripped:
            self.rec.probe("rng tripwire: " + ",".join(sorted(set(tripped))))

        # reference skeleton with the library's own LPF (trusted here)
        Es = sig if sig.ndim == 2 else sig[None, :]
        P_t = np.sum(np.abs(Es) ** 2, axis=0)
        i_sig = r * P_t
        isolated = bool(op.get("iso")) or self.after_gv
        self.after_gv = False
        bw = self._bw(op)
        ref_sig = self._lpf_ref(i_sig * R, bw, isolated)
        scale_s = max(np.max(np.abs(ref_sig)), 1e-300)
        if not np.allclose(s0, ref_sig, rtol=1e-9, atol=1e-12 * scale_s):
            j = int(np.argmax(np.abs(s0 - ref_sig)))
            raise Violation("C09/square-law", f"{what}: signal part differs from LPF(R_load*r*sum|E|^2): sample {j} "
                                              f"{s0[j]!r} vs {ref_sig[j]!r}", "signal")
        if op["field"] == "cw":
            mid = slice(n // 4, 3 * n // 4)
            cwv = r * float(np.mean(P_t)) * R
            if np.max(np.abs(s0[mid] - cwv)) > 1e-9 * abs(cwv):
                raise Violation("C09/square-law", f"{what}: CW power {np.mean(P_t):.3e} W gives {s0[n // 2]!r} V away "
                                                  f"from the edges, expected r*P*R_load = {cwv!r}", "cw")
            self.rec.probe("CW unit-DC-gain checked")
        det = np.full(n, float(idk))
        Pn_mean = 0.0
        if noise is not None:
            Nn = noise if noise.ndim == 2 else noise[None, :]
            Pn_mean = float(np.mean(np.sum(np.abs(Nn) ** 2, axis=0)))
            if ase:
                det = det + r * np.sum(2 * np.real(Es * np.conj(Nn)) + np.abs(Nn) ** 2, axis=0)
        ref_n0 = self._lpf_ref(det * R, bw, isolated)
        scale_n = max(np.max(np.abs(ref_n0)), np.max(np.abs(n0)), 1e-300)
        var_exp = 0.0
        if th:
            var_exp += 4 * kB * T * 10 ** (Fn / 10) * B / R
        if sh:
            var_exp += 2 * qe * (r * (float(np.mean(P_t)) + Pn_mean) + idk) * B
        if units == 0 and (th or sh) and var_exp > 0 and not bypass:
            np.random.seed(op["seed"])
            ya = self._pd(x, op)
            if ya.noise is not None and not np.array_equal(np.asarray(ya.noise), n0):
                bypass = True
        if not bypass and not np.allclose(n0, ref_n0, rtol=1e-8, atol=1e-10 * scale_n):
            j = int(np.argmax(np.abs(n0 - ref_n0)))
            raise Violation("C09/selection", f"{what}: with all Gaussian draws at 0 the noise part is not "
                                             f"LPF(R_load*(selected beat terms + i_dark)): sample {j} {n0[j]!r} vs "
                                             f"{ref_n0[j]!r} (ase selected={ase}, input noise={noise is not None}); a "
                                             f"non-zero mean of a Gaussian term shows up here too", "det-noise")

        # ---- one-hot twins: effective scale of every unit-variance draw -----------------------
        if bypass:
            units = 0        # some draw escapes the seam: identify nothing, use the statistical fallback below
        a = []
        for k in range(units):
            with ScriptedRNG("onehot", k=k) as zz:
                yk = self._pd(x, op)
            chk_out(yk, f"onehot{k}")
            if not np.array_equal(np.asarray(yk.signal), np.asarray(y0.signal)):
                raise Violation("C09/signal-det", f"{what}: the signal part changes with Gaussian draw #{k}", "signal-det")
            dk = (np.asarray(yk.noise, dtype=float) - n0) / R
            mid = dk[n // 4: 3 * n // 4] if n >= 64 else dk
            ak = float(np.mean(mid))
            if np.max(np.abs(mid - ak)) > 1e-6 * max(abs(ak), 1e-30) + 1e-12 * scale_n / R:
                raise Violation("C09/white", f"{what}: a constant value of draw #{k} does not give a constant output "
                                             f"(DC gain of the noise path is not 1 / draw enters non-additively)",
                                "dc-gain")
            a.append(ak)
        if units and not (th or sh):
            if any(abs(v) > 0 for v in a):
                raise Violation("C09/selection", f"{what}: Gaussian terms present although neither thermal nor shot "
                                                 f"noise is selected (scales {a})", "selection/extra")
        got = float(np.sum(np.square(a)))
        if not bypass:
            # last term: each scale is a difference of outputs that also carry the deterministic beat terms, so it is
            # known to ~eps*scale_n/R only (matters when the Gaussian terms are many decades below them: fs of a few Hz)
            if abs(got - var_exp) > 1e-7 * max(var_exp, got) + 1e-40 + 1e-14 * (scale_n / R) * np.sqrt(max(var_exp, got)):
                raise Violation("C09/variance", f"{what}: sum of squared scales of the Gaussian draws = {got:.9e} A^2, "
                                                f"documented thermal+shot variance = {var_exp:.9e} A^2 (thermal={th}, "
                                                f"shot={sh}, fs={fs:.3e}, T={T}, R_load={R}, Fn={Fn}, r={r}, "
                                                f"P_sig={np.mean(P_t):.3e}, P_noise={Pn_mean:.3e}, i_dark={idk}; "
                                                f"requests {reqs})", f"variance/{'th' if th else ''}{'sh' if sh else ''}")
            for rq in reqs:
                if rq[0] in ("normal",) and rq[1] != 0.0:
                    raise Violation("C09/mean", f"{what}: Gaussian request with loc={rq[1]}", "mean")
            self.rec.probe("variance identified exactly from one-hot twins")
        else:
            self.rec.probe("seam_bypassed")
            self._fallback_variance(op, var_exp, what)
            units = 0

        # ---- impulse twin: the draws enter white ---------------------------------------------------
        if units and not bypass:
            k = op["seed"] % units
            pos = n // 2
            with ScriptedRNG("impulse", k=k, n=pos):
                yi = self._pd(x, op)
            di = np.asarray(yi.noise, dtype=float) - n0
            imp = np.zeros(n)
            imp[pos] = a[k] * R
            ref_i = self._lpf_ref(imp, bw, False)
            tol = 1e-6 * max(np.max(np.abs(ref_i)), 1e-300) + 1e-9 * scale_n
            if np.max(np.abs(di - ref_i)) > tol:
                raise Violation("C09/white", f"{what}: a single non-zero sample of draw #{k} does not come out as the "
                                             f"filter's impulse response (the term is not injected white)", "white")
            # all draws one: superposition
            with ScriptedRNG("const", value=1.0):
                yc = self._pd(x, op)
            dc = (np.asarray(yc.noise, dtype=float) - n0)[n // 4: 3 * n // 4] / R
            if np.max(np.abs(dc - sum(a))) > 1e-6 * max(sum(abs(v) for v in a), 1e-30) + 1e-12 * scale_n / R:
                raise Violation("C09/white", f"{what}: draws do not superpose linearly", "superpose")

        # ---- real same-seed twins (Layer A) ------------------------------------------------------------
        np.random.seed(op["seed"])
        ya = self._pd(x, op)
        np.random.seed(op["seed"])
        yb = self._pd(x, op)
        chk_out(ya, "real")
        if not np.array_equal(np.asarray(ya.signal), np.asarray(y0.signal)) or \
                not np.array_equal(np.asarray(ya.signal), np.asarray(yb.signal)):
            raise Violation("C09/signal-det", f"{what}: the signal part differs between a seeded real run and the "
                                              f"all-zero-draw run", "signal-det/real")

        # ---- invariances and scalings of the signal part -------------------------------------------------
        rs = np.random.RandomState(op["inseed"] ^ 0x55)
        for ex in op["extras"]:
            if ex == "phase":
                ph = np.exp(1j * rs.uniform(0, 2 * np.pi))
                x2 = self._mk(sig * ph, None if noise is None else noise.astype(complex) * ph)
                fac = 1.0
            elif ex == "unitary":
                if sig.ndim != 2:
                    continue
                th_, p1, p2 = rs.uniform(0, np.pi), rs.uniform(0, 2 * np.pi), rs.uniform(0, 2 * np.pi)
                U = np.array([[np.cos(th_) * np.exp(1j * p1), np.sin(th_) * np.exp(1j * p2)],
                              [-np.sin(th_) * np.exp(-1j * p2), np.cos(th_) * np.exp(-1j * p1)]])
                x2 = self._mk(U @ sig, None if noise is None else U @ noise.astype(complex))
                fac = 1.0
            elif ex == "scale_amp":
                x2 = self._mk(sig * 2.0, None if noise is None else noise * 2.0)
                fac = 4.0
            else:
                x2 = x
                fac = None
            with ScriptedRNG("zero"):
                if ex == "scale_r":
                    y2 = self._pd(x2, op, r=r / 2)
                    fac = 0.5
                elif ex == "scale_R":
                    y2 = self._pd(x2, op, R_load=R * 2)
                    fac = 2.0
                else:
                    y2 = self._pd(x2, op)
            s2 = np.asarray(y2.signal).real
            if not np.allclose(s2, fac * s0, rtol=1e-8, atol=1e-11 * scale_s * fac):
                raise Violation("C09/square-law", f"{what}: signal part under '{ex}' is not {fac} x the original "
                                                  f"(max dev {np.max(np.abs(s2 - fac * s0)):.3e} of {scale_s:.3e})",
                                f"invariance/{ex}")
            if ex in ("phase", "unitary") and y2.noise is not None and not bypass:
                if not np.allclose(np.asarray(y2.noise, dtype=float), n0, rtol=1e-7, atol=1e-9 * scale_n):
                    raise Violation("C09/square-law", f"{what}: deterministic noise part changes under '{ex}'",
                                    f"invariance-noise/{ex}")
            self.rec.probe(f"twin {ex}")

        if (seams.buf_digest(x.signal), seams.buf_digest(x.noise)) != dig0:
            raise Violation("C09/len", f"{what}: PD modified its input", "mutate")
        # the owner of the field rescales it *in place* (same object, same buffer) and detects it again:
        # the signal part must follow the field as it is now (quadratic in amplitude)
        if x.signal.flags.writeable and op["inseed"] % 2:
            x.signal *= 2.0
            if x.noise is not None:
                x.noise *= 2.0
            with ScriptedRNG("zero"):
                y4 = self._pd(x, op)
            s4 = np.asarray(y4.signal).real
            if not np.allclose(s4, 4.0 * s0, rtol=1e-8, atol=1e-11 * scale_s * 4):
                raise Violation("C09/square-law", f"{what}: after the caller doubled the field in place the signal part is "
                                                  f"not 4 x the previous one (max dev {np.max(np.abs(s4 - 4 * s0)):.3e} of "
                                                  f"{4 * scale_s:.3e}): detection does not follow the field as passed",
                                "inplace-rescale")
            self.rec.fault("scribble")
        if not np.array_equal(np.asarray(y0.signal).real, s0) or not np.array_equal(
                np.zeros(n) if y0.noise is None else np.asarray(y0.noise, dtype=float), n0):
            raise Violation("C09/len", f"{what}: an earlier result changed while later calls were made (shared buffer)",
                            "result-unstable")
        self.rec.ok_ops += 1
        fsd = int(np.floor(np.log10(fs)))
        bwf = bw / fs
        self.rec.sig(inc, op["npol"], op["innoise"] or "-", fsd, "lo" if bwf < 0.1 else "mid" if bwf < 0.3 else "hi",
                     op["field"])
        return f"units={units}:var={got:.6e}:{core.array_digest(s0)[:8]}"

    def _fallback_variance(self, op, var_exp, what):
        """Seam bypassed: statistical check with six-sigma band on long CW records."""
        fs = float(self.gv.fs)
        n = 1 << 16
        x = self.O(np.sqrt(op["P"]) * np.ones(n, dtype=complex))
        inc = op["include"].lower()
        imp = np.zeros(4096)
        imp[2048] = 1.0
        h = np.asarray(self.LPF(self.E(imp), self._bw(op)).signal, dtype=float)
        g = float(np.sum(h ** 2))
        P = op["P"]
        r, T, R, idk, Fn = float(op["r"]), float(op["T"]), float(op["R_load"]), op["i_dark"], op["Fn"]
        v = 0.0
        if "thermal" in inc or inc == "all":
            v += 4 * kB * T * 10 ** (Fn / 10) * fs / 2 / R
        if "shot" in inc or inc == "all":
            v += 2 * qe * (r * P + idk) * fs / 2
        for s in range(3):
            np.random.seed(op["seed"] + s)
            y = self._pd(x, op)
            nz = np.asarray(y.noise, dtype=float)[2048:-2048]
            est = float(np.var(nz)) / (R * R)
            # effective number of independent samples of the filtered noise, from the filter's own power response
            S = np.abs(np.fft.fft(h)) ** 2
            neff = nz.size * float(S.sum() ** 2 / (S.size * (S ** 2).sum()))
            band = 6 * np.sqrt(2.0 / max(neff, 8))
            floor = (1e-9 * float(np.max(np.abs(nz))) / R) ** 2 + 1e-40      # rounding residue of the deterministic part
            if abs(est - v * g) > band * v * g + floor:
                raise Violation("C09/variance", f"{what}: (fallback) sample variance {est:.4e} A^2 vs documented "
                                                f"{v * g:.4e} A^2 (after filter), outside six sigma", "variance/fallback")

    def op_bad(self, op):
        w = op["what"]
        # a rejected call must leave nothing behind for the next record of the same length
        x = self.O(np.ones(int(op.get("n", 64)), dtype=complex) * 0.01)
        BW = 0.2 * self.gv.fs
        table = {
            "r0": (dict(r=0), ValueError), "r_neg": (dict(r=-0.5), ValueError), "r_big": (dict(r=1.5), ValueError),
            "r_list": (dict(r=[0.5]), TypeError), "r_str": (dict(r="1"), TypeError),
            "T_neg": (dict(T=-1.0), ValueError), "T_str": (dict(T="300"), TypeError),
            "R_neg": (dict(R_load=-50.0), ValueError), "R_list": (dict(R_load=[50]), TypeError),
            "inc_int": (dict(include_noise=3), TypeError), "inc_none": (dict(include_noise=None), TypeError),
            "inc_bad": (dict(include_noise="everything"), ValueError),
            "inc_words": (dict(include_noise=op.get("w", "shot-ase")), ValueError),
        }
        try:
            if w == "in_es":
                exp = TypeError
                self.PD(self.E(np.ones(64)), BW)
            elif w == "in_arr":
                exp = TypeError
                self.PD(np.ones(64, dtype=complex), BW)
            else:
                kw, exp = table[w]
                self.PD(x, BW, **kw)
        except exp:
            self.rec.fault("failed_call")
            self.rec.sig("bad", w)
            return exp.__name__
        except Exception as e:
            raise Violation("C09/args", f"invalid call {w} raised {type(e).__name__}: {e}; documented: {exp.__name__}",
                            f"args/{w}")
        raise Violation("C09/args", f"invalid call {w} was accepted", f"args/{w}")


def _long(spec, rec):
    """A record longer than 2^22 samples: the signal part must still be one low-pass filtering of the whole record."""
    rng = random.Random(spec["seed"])
    b = Bench(rec)
    try:
        common.apply_gv({"sps": 16, "R": 10e9})
        b.pristine.gv({"sps": 16, "R": 10e9})
        op = {"op": "pd", "n": spec["n"], "field": "random", "npol": rng.choice([1, 2]), "innoise": None, "P": 1e-3,
              "nlevel": 0.01, "inseed": rng.getrandbits(32), "r": 0.9, "T": 300.0, "R_load": 50.0,
              "BWf": rng.uniform(0.05, 0.3), "BWabs": None, "iso": False, "i_dark": 1e-8, "Fn": 0.0,
              "include": "thermal-shot", "seed": rng.getrandbits(31), "extras": []}
        fs = float(b.gv.fs)
        sig, _ = build_field(op, fs)
        x = b._mk(sig, None)
        with ScriptedRNG("zero"):
            y0 = b._pd(x, op)
        Es = sig if sig.ndim == 2 else sig[None, :]
        ref = b._lpf_ref(op["r"] * np.sum(np.abs(Es) ** 2, axis=0) * op["R_load"], b._bw(op), True)
        s0 = np.asarray(y0.signal).real
        if s0.shape != ref.shape or not np.allclose(s0, ref, rtol=1e-9, atol=1e-12 * np.max(np.abs(ref))):
            j = int(np.argmax(np.abs(s0 - ref))) if s0.shape == ref.shape else -1
            raise Violation("C09/square-law", f"PD on a {spec['n']}-sample record: signal part differs from "
                                              f"LPF(R_load*r*sum|E|^2) at sample {j}", "signal/long")
        # locality: what the detector shows at the beginning of a record cannot depend on what the field does three
        # quarters of a record later (any non-circular filter; a frequency-domain shortcut wraps the end into the start)
        sig_b = np.array(sig, copy=True)
        sig_b[..., (3 * spec["n"]) // 4:] *= 0.3
        with ScriptedRNG("zero"):
            yb = b._pd(b._mk(sig_b, None), op)
        q = spec["n"] // 4
        sb = np.asarray(yb.signal).real
        if sb.shape != s0.shape or not np.allclose(sb[:q], s0[:q], rtol=1e-9, atol=1e-12 * np.max(np.abs(ref))):
            j = int(np.argmax(np.abs(sb[:q] - s0[:q]))) if sb.shape == s0.shape else -1
            raise Violation("C09/square-law", f"PD on a {spec['n']}-sample record: the output at sample {j} changes when "
                                              f"only the last quarter of the field is changed", "signal/long-local")
        rec.n_ops += 1
        rec.ok_ops += 1
        rec.probe("record longer than 2^22 samples")
        rec.log("long", spec["n"], core.array_digest(s0)[:10])
        rec.sig("long", op["npol"])
    finally:
        b.pristine.close()
    rec.sim_s = b.clock.covered


def execute(spec, rec, known):
    if spec.get("kind") == "long":
        with warnings.catch_warnings():
            warnings.simplefilter("ignore")
            _long(spec, rec)
        return
    b = Bench(rec)
    try:
        core.run_ops(b, spec["ops"], rec, "C09/args", "C09/len")
    finally:
        b.pristine.close()
    rec.sim_s = b.clock.covered
