"""C10 - EDFA applies gain G to all of its input and adds ASE of the documented power.

Same technique as C09: the RNG is behind a seam.  Each EDFA case is a bundle of twin
runs (zero / one-hot per draw unit / impulse / same-seed real with the noise component
stripped / BW vs BPF-of-unfiltered) from which the gain law for signal and incoming
noise, the polarisation bookkeeping and the ASE covariance are identified exactly.
"""
import random
import warnings

import numpy as np
from scipy.constants import h as h_planck, c as c_light

from sim import core, seams, common
from sim.core import Violation
from sim.seams import ScriptedRNG
from checks.c09 import gen_field, build_field
from sim.pristine import Pristine

PROPERTY = "C10"
RULE = ("seeded bench histories: gv reconfigurations (fs, wavelength), then EDFA bundles (one/two-polarisation inputs, "
        "noise absent / complex / real-valued, G in [0,40] dB, NF in [3,10] dB, BW None or a fraction of fs), each "
        "bundle = zero + one-hot(k) + impulse + stripped-noise same-seed twin + BW-vs-BPF twin, with rng_reseed / "
        "freeze faults and non-optical inputs in between; distinct = (n_pol, noise kind, G class, BW class, fs "
        "decade, wavelength) signatures in runs with >=3 successful bundles")
WALL = {"quick": 300, "thorough": 900, "replay": 600}
BLOCK = {"quick": 100000, "thorough": 4096}
SELFTEST = {"quick": 16, "thorough": 100}
COMPONENTS_REAL = ["opticomlib.devices.EDFA", "opticomlib.devices.BPF", "opticomlib.typing.optical_signal/gv",
                   "opticomlib.utils.idb"]
COMPONENTS_STUB = ["np.random.randn/normal/standard_normal inside Layer-B twins (ScriptedRNG)",
                   "opticomlib.utils.tm (SimClock)"]
ASSUMPTIONS = [
    "the library's BPF is trusted for the bandwidth clause (output == BPF(unfiltered twin)), evaluated in a pristine "
    "process after every grid change and for 40% of the other bundles",
    "with all ASE draws at zero and a noise-free input the noise component may be None or all zeros",
    "ASE draws may be split/merged by a refactor: only the 4x4 covariance M M^T of the identified mixing matrix is asserted",
    "output OSNR <= input OSNR is implied by (gain sqrt(G) on signal and on incoming noise) + (ASE covariance positive "
    "semi-definite) and is not re-measured statistically",
]
N_RUNS = {"quick": 2400, "thorough": 16000}
NONTRIVIAL_OPS = 3


def tasks(tier, master):
    return [{"kind": "run", "i": i, "seed": core.derive_seed(master, PROPERTY, tier, i), "tier": tier}
            for i in range(N_RUNS[tier])]


def generate(seed, tier):
    rng = random.Random(seed)
    ops = [common.gen_gv_op(rng)] if rng.random() < 0.85 else []
    w = {"edfa": 8, "gv": 2, "bad": 1, "reseed": rng.choice([0, 1, 2]), "freeze": rng.choice([0, 1]),
         "clean": rng.choice([0, 1]), "leak": rng.choice([0, 0, 1]),
         "interleave": rng.choice([0, 1])}
    kinds = [k for k, c in w.items() for _ in range(c)]
    last_gn = None
    for _ in range(rng.randint(4, 9)):
        k = rng.choice(kinds)
        if k == "edfa":
            op = {"op": "edfa"}
            op.update(gen_field(rng))
            if rng.random() < 0.002:
                op["n"] = rng.choice([(1 << 17) + 5, (1 << 17) + 5, (1 << 20) + 1])     # long records
            op.update({"G": rng.choice([0, 0.0, 20, 40, rng.uniform(0, 40)]), "NF": rng.choice([3, 5.0, rng.uniform(3, 10)]),
                       "BWf": rng.choice([None, None, rng.uniform(0.05, 0.45), rng.uniform(0.05, 0.45)]),
                       "BWabs": rng.choice([None, 1e9, 4e9, 10e9]), "iso": rng.random() < 0.4, "seed": rng.getrandbits(31),
                       "sdtype": rng.choice(["complex", "complex", "real"])})
            op["gform"] = rng.choice(["py", "py", "py", "npf64", "arr0d", "arr1", "int"])
            if last_gn is not None and rng.random() < 0.4:
                op["G"], op["NF"] = last_gn      # the same amplifier again (possibly on another grid / carrier)
            last_gn = (op["G"], op["NF"])
            ops.append(op)
        elif k == "gv":
            ops.append(common.gen_gv_op(rng))
            prev = [o for o in ops[:-1] if o["op"] == "gv"]
            if prev and rng.random() < 0.3:
                # the same grid on another carrier: only the photon energy changes
                wl0 = prev[-1]["kw"].get("wavelength", 1550e-9)
                ops[-1] = {"op": "gv", "kw": dict(prev[-1]["kw"], wavelength=rng.choice(
                    [w_ for w_ in common.WL_SET if w_ != wl0]))}
            elif rng.random() < 0.35:
                # fs given explicitly and NOT a multiple of the slot rate: the devices must use gv.fs, not sps*R
                R_ = rng.choice([1e9, 10e9, 2.5e9])
                ops[-1] = {"op": "gv", "kw": {"R": R_, "fs": R_ * rng.choice([2.5, 3.5, 2.6, 7.3, 12.75])}}
        elif k == "bad":
            ops.append({"op": "bad", "what": rng.choice(["es", "arr", "list", "none"])})
        elif k == "clean":
            ops.append({"op": "clean"})      # back to the default grid and carrier (often followed by a new gv())
        elif k == "leak":
            ops.append({"op": "leak", "upto": rng.choice([40, 70, 140]), "every": rng.choice([1, 1, 3])})
        elif k == "interleave":
            ops.append({"op": "interleave", "what": rng.choice(["eye", "eye", "prbs", "dac"])})
        elif k == "reseed":
            ops.append({"op": "reseed", "s": rng.getrandbits(31)})
        elif k == "freeze":
            ops.append({"op": "freeze", "on": rng.random() < 0.6})
    return {}, ops


def simplify_op(op):
    if op.get("op") == "edfa":
        if op["n"] > 32:
            yield dict(op, n=32)
        if op["npol"] == 2:
            yield dict(op, npol=1)
        if op["innoise"]:
            yield dict(op, innoise=None)
        if op["BWf"] is not None:
            yield dict(op, BWf=None)
        if op["field"] != "cw":
            yield dict(op, field="cw")
        if op["sdtype"] != "complex":
            yield dict(op, sdtype="complex")


def _rows(a):
    a = np.asarray(a)
    return a if a.ndim == 2 else a[None, :]


class Bench:
    def __init__(self, rec):
        self.pristine = Pristine()        # forked before this run touches the library
        self.after_gv = True
        from opticomlib.devices import EDFA, BPF
        from opticomlib.typing import optical_signal, electrical_signal, gv
        self.EDFA, self.BPF, self.O, self.E, self.gv = EDFA, BPF, optical_signal, electrical_signal, gv
        self.rec = rec
        self.clock = seams.install_clock(0)
        self.frozen = False
        self.wl = 1550e-9

    def apply(self, op, step):
        self.rec.n_ops += 1
        with warnings.catch_warnings():
            warnings.simplefilter("ignore")
            out = getattr(self, "op_" + op["op"])(op)
        self.rec.log(step, op["op"], out)

    def op_gv(self, op):
        common.apply_gv(op["kw"])
        self.pristine.gv(op["kw"])
        self.after_gv = True
        self.wl = float(op["kw"].get("wavelength", 1550e-9))     # every gv() call sets the carrier (default 1550 nm)
        self.rec.fault("gv_reconf")
        return f"{self.gv.fs:.3e}/{self.gv.f0:.4e}"

    def op_clean(self, op):
        self.gv.clean()
        self.pristine.clean()
        self.after_gv = True
        self.wl = 1550e-9
        self.rec.fault("gv_clean")
        return f"{self.gv.fs:.3e}/{self.gv.f0:.4e}"

    def op_interleave(self, op):
        """Other library blocks are used between two calls of the device (a link loop: amplify/detect, estimate the
        eye, generate the next pattern ...): every call must still draw fresh noise."""
        from opticomlib.devices import GET_EYE, PRBS, DAC
        x = self.O(np.exp(1j * np.arange(64)) * 0.01)
        sps = int(self.gv.sps)

        def foreign():
            with seams.stdout_tap():
                if op["what"] == "eye":
                    b = np.tile([0, 1, 1, 0, 1, 0, 0, 1], 8)
                    w = np.kron(b, np.ones(sps)) + 0.01 * np.cos(np.arange(64 * sps))
                    try:
                        GET_EYE(w, sps_resamp=32)
                    except Exception:
                        pass        # the estimator itself is C17's subject; only its side effects matter here
                elif op["what"] == "prbs":
                    PRBS(7, 40)
                else:
                    DAC(PRBS(7, 16), 0.0, 1.0, "nrz")
        outs = []
        for k in range(3):
            outs.append(np.array(self._nz(self.EDFA(x, 13.0, 5.0), 64)))
            foreign()
        if not np.any(outs[0]):
            return "no-noise"
        for i, j in ((0, 1), (1, 2), (0, 2)):
            if np.array_equal(outs[i], outs[j]):
                raise Violation("C10/ase-cov", f"EDFA calls {i} and {j} of a loop that also uses {op['what']} carry the identical "
                                            f"noise realisation: the noise is not drawn afresh", "fresh/" + op["what"])
        self.rec.fault("foreign_calls_interleaved")
        return "fresh"

    def op_leak(self, op):
        """Rejected calls pile up on the library's timer stack; the amplifier must keep working and keep giving
        the same result (all draws served as zeros) at every depth."""
        x = self.O(np.exp(1j * np.arange(32)) * 0.01)

        def reject():
            try:
                self.EDFA(np.ones(8), 10.0, 5.0)
            except (TypeError, ValueError, AttributeError):
                pass

        def valid():
            with ScriptedRNG("zero"):
                y = self.EDFA(x, 13.0, 5.0, 0.3 * float(self.gv.fs))
            return core.array_digest(np.asarray(y.signal)) + core.array_digest(self._nz(y, 32))
        return common.leak_sweep(reject, valid, op["upto"], "C10/gain-signal", self.rec, op.get("every", 1), "EDFA call")

    def op_reseed(self, op):
        np.random.seed(op["s"])
        self.rec.fault("rng_reseed")
        return op["s"]

    def op_freeze(self, op):
        self.frozen = bool(op["on"])
        return str(self.frozen)

    def _mk(self, sig, noise, layout=None):
        sig, noise = common.relayout(sig, layout), common.relayout(noise, layout)
        x = self.O(sig, noise) if noise is not None else self.O(sig)
        if self.frozen:
            seams.set_writeable([x.signal, x.noise], False)
        return x

    def _contract(self, y, n, what):
        if type(y) is not self.O:
            raise Violation("C10/pol", f"{what}: EDFA returned {type(y).__name__}", "type")
        if getattr(y, "n_pol", None) != 2 or y.signal.shape != (2, n):
            raise Violation("C10/pol", f"{what}: output must have two polarisations of {n} samples, got n_pol="
                                       f"{getattr(y, 'n_pol', None)} shape {y.signal.shape}", "pol/shape")
        if y.noise is not None and y.noise.shape != (2, n):
            raise Violation("C10/pol", f"{what}: noise shape {y.noise.shape}", "pol/noise-shape")

    @staticmethod
    def _nz(y, n):
        return np.zeros((2, n), dtype=complex) if y.noise is None else np.asarray(y.noise).astype(complex)

    def op_edfa(self, op):
        # the carrier is what the last gv()/clean() of this history configured (own record, not the library's gv.f0)
        fs, f0 = float(self.gv.fs), c_light / self.wl
        sig, noise = build_field(op, fs)
        if op["sdtype"] == "real":
            sig = np.abs(sig) if op["field"] != "random" else sig.real
            if noise is not None and op["innoise"] == "real":
                noise = noise.real
        n, npol = op["n"], op["npol"]
        G, NF = op["G"], op["NF"]
        g = 10 ** (G / 10)
        sg = np.sqrt(g)
        nf = 10 ** (NF / 10)
        P_ase = nf * h_planck * f0 * (g - 1) * fs
        x = self._mk(sig, noise, op.get("layout"))
        dig0 = (seams.buf_digest(x.signal), seams.buf_digest(x.noise))
        what = f"EDFA/pol{npol}/{op['innoise'] or 'clean'}/{op['sdtype']}/G{G:.3g}"

        # gain and noise figure as the caller's number-like objects (one object for the whole bundle)
        gform = op.get("gform", "py")
        if gform == "int" and (float(G) != int(G) or float(NF) != int(NF)):
            gform = "py"
        mkn = {"py": lambda v: v, "npf64": np.float64, "arr0d": lambda v: np.array(float(v)),
               "arr1": lambda v: np.array([float(v)]), "int": int}[gform]
        Garg, NFarg = mkn(G), mkn(NF)

        def run(xx, bw=None):
            y_ = self.EDFA(xx, Garg, NFarg) if bw is None else self.EDFA(xx, Garg, NFarg, bw)
            if float(np.asarray(Garg).ravel()[0]) != float(G) or float(np.asarray(NFarg).ravel()[0]) != float(NF):
                raise Violation("C10/type", f"{what}: EDFA modified its G/NF argument ({gform}): G={Garg!r}, NF={NFarg!r} "
                                            f"after a call with G={G}, NF={NF}", "mutate/gain")
            return y_

        # ---- zero twin: gain law and polarisation bookkeeping (no filter) -----------------------
        with ScriptedRNG("zero") as z:
            y0 = run(x)
        y0_keep = (np.array(y0.signal), None if y0.noise is None else np.array(y0.noise))
        with ScriptedRNG("zero") as z2:
            y0b = run(x)
        self._contract(y0, n, what)
        units = z.n_units
        tripped = z.tripped + z2.tripped
        bypass = bool(tripped) or not np.array_equal(self._nz(y0, n), self._nz(y0b, n))
        if bypass and not tripped:
            # a draw escaping the seam makes every execution differ; a third zero twin equal to the second means the
            # FIRST call carried something over from the history before it: keep it and let the checks below judge
            with ScriptedRNG("zero") as z3:
                y0c = run(x)
            if not z3.tripped and np.array_equal(self._nz(y0c, n), self._nz(y0b, n)):
                bypass = False
                self.rec.probe("first zero twin differs from two identical later ones (history carried in)")
        S = _rows(sig).astype(complex)
        exp_s = np.zeros((2, n), dtype=complex)
        exp_s[:S.shape[0]] = sg * S
        ys = np.asarray(y0.signal).astype(complex)
        scale = max(float(np.max(np.abs(exp_s))), 1e-300)
        if not np.allclose(ys, exp_s, rtol=1e-12, atol=1e-15 * scale):
            p = 0 if not np.allclose(ys[0], exp_s[0], rtol=1e-12, atol=1e-15 * scale) else 1
            raise Violation("C10/gain-signal", f"{what}: signal part of polarisation {'xy'[p]} is not sqrt(G) x input "
                                               f"(got {ys[p][:2]}, expected {exp_s[p][:2]}); a one-polarisation input "
                                               f"must leave y empty", f"gain-signal/{'x' if p == 0 else 'y'}")
        exp_n = np.zeros((2, n), dtype=complex)
        if noise is not None:
            Nn = _rows(noise).astype(complex)
            exp_n[:Nn.shape[0]] = sg * Nn
        nscale = max(float(np.max(np.abs(exp_n))), 1e-300)
        if not bypass:
            yn = self._nz(y0, n)
            if not np.allclose(yn, exp_n, rtol=1e-12, atol=1e-15 * nscale):
                p = 0 if not np.allclose(yn[0], exp_n[0], rtol=1e-12, atol=1e-15 * nscale) else 1
                raise Violation("C10/gain-noise", f"{what}: with all ASE draws at 0 the noise of polarisation {'xy'[p]} "
                                                  f"is {yn[p][:2]}, expected sqrt(G) x input noise = {exp_n[p][:2]} "
                                                  f"(G={G} dB, input noise {'present' if noise is not None else 'absent'})",
                                f"gain-noise/{'x' if p == 0 else 'y'}/{'1pol' if npol == 1 else '2pol'}")

        # ---- one-hot twins: the 4 x K mixing matrix of the draws ------------------------------------
        if bypass:
            self.rec.probe("seam_bypassed")
            self._fallback(x, op, P_ase, exp_n, what)
        else:
            if units == 0 and P_ase > 0:
                np.random.seed(op["seed"])
                ya = run(x)
                if not np.array_equal(self._nz(ya, n), self._nz(y0, n)):
                    self.rec.probe("seam_bypassed")
                    self._fallback(x, op, P_ase, exp_n, what)
                    units = -1
                else:
                    raise Violation("C10/ase-cov", f"{what}: no ASE is generated although NF*h*f0*(G-1)*fs = "
                                                   f"{P_ase:.3e} W", "ase-cov/none")
            if units >= 0:
                M = np.zeros((4, max(units, 1)))
                yn0 = self._nz(y0, n)
                for k in range(units):
                    with ScriptedRNG("onehot", k=k):
                        yk = run(x)
                    self._contract(yk, n, what)
                    if not np.array_equal(np.asarray(yk.signal), np.asarray(y0.signal)):
                        raise Violation("C10/gain-signal", f"{what}: signal part depends on ASE draw #{k}", "signal-det")
                    d = self._nz(yk, n) - yn0
                    m = d.mean(axis=1)
                    if np.max(np.abs(d - m[:, None])) > 1e-9 * max(np.max(np.abs(m)), 1e-300) + 1e-13 * nscale:
                        raise Violation("C10/ase-cov", f"{what}: a constant value of draw #{k} does not give a "
                                                       f"constant ASE contribution", "ase-cov/flat")
                    M[:, k] = [m[0].real, m[0].imag, m[1].real, m[1].imag]
                C = M @ M.T
                target = (P_ase / 4) * np.eye(4)
                # last term: the scales are differences of outputs that carry the amplified input noise, so they are
                # known to ~eps*nscale; that limits C when the ASE is many decades below the input noise
                tol = 1e-9 * max(P_ase / 4, np.max(np.abs(C))) + 1e-26 * nscale ** 2 + 1e-14 * nscale * np.sqrt(P_ase)
                if np.max(np.abs(C - target)) > tol:
                    lab = ["Re x", "Im x", "Re y", "Im y"]
                    i, j = np.unravel_index(int(np.argmax(np.abs(C - target))), (4, 4))
                    raise Violation("C10/ase-cov", f"{what}: ASE covariance entry ({lab[i]},{lab[j]}) = {C[i, j]:.6e}, "
                                                   f"expected {target[i, j]:.6e} (P_ase/4 on the diagonal, independent "
                                                   f"quadratures and polarisations; P_ase = NF*h*f0*(G-1)*fs = "
                                                   f"{P_ase:.6e} W, fs={fs:.3e}, f0={f0:.5e})",
                                    f"ase-cov/{'diag' if i == j else 'offdiag'}")
                for rq in z.requests:
                    if rq[0] == "normal" and rq[1] != 0.0:
                        raise Violation("C10/ase-mean", f"{what}: ASE request with loc={rq[1]}", "ase-mean")
                self.rec.probe("ASE covariance identified exactly")
                # impulse: ASE enters white when unfiltered
                if units:
                    k = op["seed"] % units
                    pos = n // 2
                    with ScriptedRNG("impulse", k=k, n=pos):
                        yi = run(x)
                    d = self._nz(yi, n) - yn0
                    e = np.zeros((2, n), dtype=complex)
                    e[0, pos] = M[0, k] + 1j * M[1, k]
                    e[1, pos] = M[2, k] + 1j * M[3, k]
                    if np.max(np.abs(d - e)) > 1e-9 * max(np.max(np.abs(e)), 1e-300) + 1e-13 * nscale:
                        raise Violation("C10/ase-cov", f"{what}: a single sample of draw #{k} spreads over other "
                                                       f"samples (ASE is not white before the optional filter)",
                                        "ase-cov/white")

        # ---- same-seed twin with the noise component stripped (observe_at construction) ---------------
        if noise is not None:
            x_str = self._mk(sig, None)
            np.random.seed(op["seed"])
            yf = run(x)
            np.random.seed(op["seed"])
            ys_ = run(x_str)
            if not np.array_equal(np.asarray(yf.signal), np.asarray(ys_.signal)):
                raise Violation("C10/gain-signal", f"{what}: signal part depends on the presence of input noise",
                                "signal-det/strip")
            d = self._nz(yf, n) - self._nz(ys_, n)
            # tolerance: subtraction of two noisy arrays whose ASE part is identical
            mag = float(np.max(np.abs(self._nz(yf, n)))) + nscale
            if not np.allclose(d, exp_n, rtol=1e-9, atol=1e-13 * mag):
                raise Violation("C10/gain-noise", f"{what}: (noise of full run) - (ASE realisation of the noise-free "
                                                  f"twin, same seed) != sqrt(G) x input noise: got {d[:, :2]}, expected "
                                                  f"{exp_n[:, :2]}", "gain-noise/strip")
            self.rec.probe("stripped-noise same-seed twin")

        # ---- bandwidth clause ---------------------------------------------------------------------------
        if op["BWf"] is not None:
            bw = op["BWf"] * fs
            ba = op.get("BWabs")
            if ba is not None and 0.04 * fs < ba < 0.9 * fs:
                bw = float(ba)
            with ScriptedRNG("real", seed=op["seed"]):
                y_nb = run(x)
            with ScriptedRNG("real", seed=op["seed"]):
                y_bw = run(x, bw)
            self._contract(y_bw, n, what + "/BW")
            if op.get("iso") or self.after_gv:
                ans = self.pristine.ask("bpf", np.asarray(y_nb.signal), None if y_nb.noise is None else
                                        np.asarray(y_nb.noise), 2, bw)
                if ans[0] != "ok":
                    raise RuntimeError(f"pristine BPF failed: {ans}")
                import types as _t
                ref = _t.SimpleNamespace(signal=ans[1], noise=ans[2])
                self.rec.probe("reference filter evaluated in a pristine process")
            else:
                ref = self.BPF(y_nb, bw)
            self.after_gv = False
            for name in ("signal", "noise"):
                a_, b_ = getattr(y_bw, name), getattr(ref, name)
                if (a_ is None) != (b_ is None):
                    raise Violation("C10/bw", f"{what}: with BW the {name} component presence differs from "
                                              f"BPF(unfiltered)", f"bw/{name}")
                if a_ is not None:
                    sc = max(float(np.max(np.abs(b_))), 1e-300)
                    if not np.allclose(a_, b_, rtol=1e-9, atol=1e-12 * sc):
                        raise Violation("C10/bw", f"{what}: with BW={bw:.3e} the {name} component is not the "
                                                  f"band-limited version of the unfiltered output", f"bw/{name}")
            self.rec.probe("BW twin")
            # independent of the library's own BPF: beyond the cut-off BW/2 the same ASE realisation must come out
            # attenuated (zero-phase low-pass equivalent: -6 dB at the cut-off, more above it; 2x margin)
            if n >= 256 and P_ase > 0 and y_bw.noise is not None and y_nb.noise is not None:
                f_ = np.abs(np.fft.fftfreq(n, 1 / fs))
                band = f_ > 0.55 * bw
                if int(band.sum()) >= 16:
                    pu = float(np.sum(np.abs(np.fft.fft(self._nz(y_nb, n), axis=1)[:, band]) ** 2))
                    pf = float(np.sum(np.abs(np.fft.fft(self._nz(y_bw, n), axis=1)[:, band]) ** 2))
                    if pu > 0 and pf > 0.5 * pu:
                        raise Violation("C10/bw", f"{what}: with BW={bw:.3e} (fs={fs:.3e}) the noise beyond the cut-off "
                                                  f"BW/2 keeps {pf / pu:.2f} of its unfiltered power: the output is "
                                                  f"not band-limited", "bw/stopband")
                    self.rec.probe("stop-band attenuation checked independently of BPF")

        if (seams.buf_digest(x.signal), seams.buf_digest(x.noise)) != dig0:
            raise Violation("C10/type", f"{what}: EDFA modified its input", "mutate")
        # a result handed to the caller must not change when the amplifier is used again (shared work buffers)
        np.random.seed(op["seed"] ^ 0x77)
        run(self._mk(sig * 0.5, None))
        if not np.array_equal(np.asarray(y0.signal), y0_keep[0]) or (y0_keep[1] is not None and not np.array_equal(
                np.asarray(y0.noise), y0_keep[1])):
            raise Violation("C10/type", f"{what}: an earlier EDFA result changed while later calls were made "
                                        f"(output shares a buffer with library state)", "result-unstable")
        for b in (y0.signal, y0.noise):
            for xb in (x.signal, x.noise):
                if seams.shares(b, xb):
                    raise Violation("C10/type", f"{what}: output shares memory with the input", "alias")
        self.rec.ok_ops += 1
        self.rec.sig(npol, op["innoise"] or "-", op["sdtype"], "G0" if G == 0 else "lo" if G < 15 else "hi",
                     "nobw" if op["BWf"] is None else "bw", int(np.floor(np.log10(fs))), round(f0 / 1e12))
        return f"units={units}:{core.array_digest(np.asarray(y0.signal))[:8]}"

    def _fallback(self, x, op, P_ase, exp_n, what):
        """Seam bypassed: sample ASE power on a long record, six-sigma band."""
        n = 1 << 16
        xx = self.O(np.ones(n, dtype=complex) * 1e-3)
        for s in range(3):
            np.random.seed(op["seed"] + s)
            y = self.EDFA(xx, op["G"], op["NF"])
            nz = np.asarray(y.noise).astype(complex)
            parts = np.array([nz[0].real, nz[0].imag, nz[1].real, nz[1].imag])
            C = parts @ parts.T / n
            band = 6 * np.sqrt(2.0 / n)
            tgt = P_ase / 4
            for i in range(4):
                for j in range(4):
                    want = tgt if i == j else 0.0
                    if abs(C[i, j] - want) > band * tgt + 1e-40:
                        raise Violation("C10/ase-cov", f"{what}: (fallback) sample covariance [{i},{j}] = {C[i, j]:.4e}, "
                                                       f"expected {want:.4e} +- six sigma", "ase-cov/fallback")

    def op_bad(self, op):
        w = op["what"]
        arg = {"es": self.E(np.ones(32)), "arr": np.ones(32, dtype=complex), "list": [1.0, 2.0, 3.0], "none": None}[w]
        try:
            self.EDFA(arg, 20, 5)
        except TypeError:
            self.rec.fault("failed_call")
            self.rec.sig("bad", w)
            return "TypeError"
        except Exception as e:
            raise Violation("C10/type", f"non-optical input ({w}) raised {type(e).__name__}: {e} instead of TypeError",
                            f"type/{w}")
        raise Violation("C10/type", f"non-optical input ({w}) was accepted", f"type/{w}")


def execute(spec, rec, known):
    b = Bench(rec)
    try:
        core.run_ops(b, spec["ops"], rec, "C10/pol", "C10/type")
    finally:
        b.pristine.close()
    rec.sim_s = b.clock.covered
