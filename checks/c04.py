"""C04 - PRBS emits the maximal-length sequence of its ITU polynomial and can be resumed.

Simulation: a consumer holds (order, state), issues resumed gen() calls, checkpoints
the state the library returned, and is crashed and restarted from its last checkpoint
(only the returned state is durable).  Oracle: exactly-once bit stream against an
independent GF(2) reference.  Period/balance: black-box identification of the one-step
map, computed primitivity, and a full walk round the cycle in resumed chunks.
"""
import random
import warnings

import numpy as np

from sim import core, seams, common
from sim.core import Violation
from sim.models import (PRBS_TAPS, RefLFSR, effective_seed, gf2_identity, gf2_pow, gf2_apply, gf2_rank,
                        companion_from_statement, prime_factors)

PROPERTY = "C04"
RULE = ("seeded consumer histories (open/reseed with arbitrary integer seeds, resumed gen calls of varied sizes, "
        "peek, checkpoint, crash_restart, failed calls, warnings-filter toggles) checked against an independent "
        "GF(2) reference; distinct = (order, op kind, size class, outcome) signatures plus split-size sequence "
        "hashes in runs with >=3 successful calls; 'ident' tasks identify the one-step map black-box and compute "
        "primitivity, 'cycle'/'chunk' tasks enumerate the full period in resumed chunks")
WALL = {"quick": 300, "thorough": 1800, "replay": 1800}
BLOCK = {"quick": 100000, "thorough": 100000}
SELFTEST = {"quick": 24, "thorough": 200}
COMPONENTS_REAL = ["opticomlib.devices.PRBS", "opticomlib.typing.binary_sequence"]
COMPONENTS_STUB = ["opticomlib.utils.tm (SimClock)"]
ASSUMPTIONS = [
    "reference stream computed from the statement's recurrence with the documented taps table, vectorised through "
    "the Frobenius identity f(x)^(2^j); cross-checked against the literal one-step recurrence in every ident task",
    "len of wrong type or <=0 must raise TypeError or ValueError (statement: 'must be a positive int'); "
    "unsupported order must raise ValueError",
    "numpy-integer `len` is not generated (the statement says int)",
    "PRBS31 distinctness of windows follows from computed primitivity of the identified map (2^31-1 prime), "
    "bits/states of the whole cycle are compared chunk by chunk in the thorough tier",
]
N_RUNS = {"quick": 2000, "thorough": 30000}
ORDERS = [7, 9, 11, 15, 20, 23, 31]
NONTRIVIAL_OPS = 3


def tasks(tier, master):
    specs = [{"kind": "run", "i": i, "seed": core.derive_seed(master, PROPERTY, tier, i), "tier": tier}
             for i in range(N_RUNS[tier])]
    nstates = 20000 if tier == "quick" else 200000
    for n in ORDERS:
        specs.append({"kind": "ident", "i": n, "order": n, "nstates": nstates,
                      "seed": core.derive_seed(master, PROPERTY, "ident", n)})
    for n in (7, 9, 11, 15, 20):
        for rep in range(1 if tier == "quick" else 3):
            specs.append({"kind": "cycle", "i": n * 10 + rep, "order": n,
                          "seed": core.derive_seed(master, PROPERTY, "cycle", n, rep)})
    longs = [(31, (1 << 22) + 1), (15, (1 << 22) + 4097)] if tier == "quick" else \
        [(n, (1 << 22) + 1 + 1000 * j) for j, n in enumerate(ORDERS)] + [(23, 5_000_000), (7, (1 << 23) + 3)]
    for j, (n, k) in enumerate(longs):
        specs.append({"kind": "long", "i": 500 + j, "order": n, "k": k,
                      "seed": core.derive_seed(master, PROPERTY, "long", n, k)})
    chunked = [(23, 8)] if tier == "quick" else [(23, 16), (31, 128)]
    for n, nch in chunked:
        s = core.derive_seed(master, PROPERTY, "chunk", n)
        for c in range(nch):
            specs.append({"kind": "chunk", "i": n * 1000 + c, "order": n, "c": c, "nchunks": nch, "seed": s})
        specs.append({"kind": "cycref", "i": n, "order": n, "seed": s})
    return specs


# ----------------------------------------------------------------------------
# generation of consumer histories
# ----------------------------------------------------------------------------
def _seed_value(rng, order):
    m = 1 << order
    c = rng.random()
    if c < 0.15:
        return None
    if c < 0.30:
        return rng.choice([0, m, -m, 5 * m, m << 7])              # zero class
    if c < 0.45:
        return -rng.randint(1, 4 * m)
    if c < 0.60:
        return rng.randint(m, 64 * m) | 1
    if c < 0.70:
        return rng.choice([1, m - 1, m >> 1, 2, m + 1, -1])
    if c < 0.76:
        return rng.choice([2 ** 63 + 5, 2 ** 64 - 1, 2 ** 62, 2 ** 100 + 3, -2 ** 70 - 1, 2 ** 63, -2 ** 63])
    return rng.randint(1, m - 1)


def _k(rng, order):
    c = rng.random()
    if c < 0.35:
        return rng.choice([1, 2, order - 1, order, order + 1, 3])
    if c < 0.88:
        return rng.randint(1, 4096 if rng.random() < 0.2 else 300)
    if c < 0.9:
        return rng.choice([65537, 131075, 40000])
    if order <= 15:
        return rng.choice([(1 << order) - 1, 1 << order])
    return rng.randint(1, 4096)


def _as_int(st):
    """A returned state as a Python int (the library hands back a one-element array if it was given one)."""
    if isinstance(st, np.ndarray):
        if st.size != 1:
            raise TypeError(f"state array of size {st.size}")
        return int(st.ravel()[0])
    return int(st)


def _open(rng):
    order = rng.choice(ORDERS)
    s = _seed_value(rng, order)
    np_ok = s is not None and abs(s) < 2 ** 62
    return {"op": "open", "order": order, "seed": s,
            "np": (np_ok and rng.random() < 0.2),
            # the seed / saved state as a 0-d or one-element integer array (the caller keeps using that object)
            "arr": (rng.choice(["0d", "1"]) if np_ok and rng.random() < 0.12 else None)}


BAD = ["len0", "len_neg", "len_str", "len_float", "order8", "order10", "order16", "order32", "order6", "order0",
       "len_none_kw_ok", "order40:def", "order63:def", "order12:def", "order8:huge", "order1:huge", "order64:def",
       "order33:huge"]


def generate(seed, tier):
    rng = random.Random(seed)
    ops = [_open(rng)]
    crash_w = rng.choice([0, 2, 5])
    filt_w = rng.choice([0, 1, 2])
    weights = {"gen": 10, "peek": 2, "checkpoint": 4, "crash": crash_w, "bad": 2, "filters": filt_w, "open": 1,
               "default_len": 1, "leak": rng.choice([0, 0, 1])}
    kinds = [k for k, w in weights.items() for _ in range(w)]
    order = ops[0]["order"]
    for _ in range(rng.randint(8, 45)):
        k = rng.choice(kinds)
        if k == "gen":
            ops.append({"op": "gen", "k": _k(rng, order), "pos": rng.random() < 0.25, "scrib": rng.random() < 0.3})
        elif k == "peek":
            ops.append({"op": "peek", "k": rng.randint(1, 200)})
        elif k == "open":
            o = _open(rng)
            order = o["order"]
            ops.append(o)
        elif k == "bad":
            ops.append({"op": "bad", "what": rng.choice(BAD)})
        elif k == "filters":
            ops.append({"op": "filters", "mode": rng.choice(["default", "ignore", "always", "once"])})
        elif k == "leak":
            ops.append({"op": "leak", "upto": rng.choice([40, 70, 140, 300]), "every": rng.choice([1, 1, 1, 3])})
            if rng.random() < 0.15:
                ops[-1] = {"op": "leak", "upto": 1100, "every": 25}
        else:
            ops.append({"op": k})
    return {}, ops


def simplify_op(op):
    if op.get("op") in ("gen", "peek") and op["k"] > 1:
        yield dict(op, k=1)
        yield dict(op, k=max(1, op["k"] // 2))
    if op.get("op") == "open":
        if op.get("np"):
            yield dict(op, np=False)
        if op["order"] != 7:
            yield dict(op, order=7)
        if op["seed"] not in (None, 1):
            yield dict(op, seed=1)


def _kclass(k, order):
    if k == 1:
        return "1"
    if k in (order - 1, order, order + 1):
        return "n"
    if k >= (1 << order) - 1:
        return "P"
    return "s" if k < 64 else "m" if k < 1024 else "L"


# ----------------------------------------------------------------------------
# the consumer machine
# ----------------------------------------------------------------------------
class Consumer:
    def __init__(self, rec):
        from opticomlib.devices import PRBS
        from opticomlib.typing import binary_sequence
        self.PRBS = PRBS
        self.BS = binary_sequence
        self.rec = rec
        self.order = None
        self.state = None          # what the consumer will pass as `seed` next
        self.ckpt_state = None
        self.ref = None
        self.ref_ckpt = None
        self.committed = []
        self.buffer = []
        self.eff_seed = None
        self.first_call_pending = False
        self.splits = []
        self.streams_checked = 0
        self.since_ckpt = []

    def apply(self, op, step):
        self.rec.n_ops += 1
        out = getattr(self, op["op"])(op)
        self.rec.log(step, op["op"], out)

    # -- calling the library --------------------------------------------------
    def _call(self, **kw):
        sd = kw.get("seed")
        keep = sd.copy() if isinstance(sd, np.ndarray) else None
        with seams.warning_tap() as w:
            out = self.PRBS(**kw)
        if keep is not None and not np.array_equal(keep, sd):
            raise Violation("C04/state", f"PRBS changed the seed object it was given: {keep!r} -> {sd!r} (a saved state must "
                                         f"stay usable)", "state/seed-mutated")
        return out, [x for x in w if issubclass(x.category, UserWarning)]

    def _check_bits(self, obj, k, what):
        if not isinstance(obj, self.BS):
            raise Violation("C04/stream", f"{what}: PRBS returned {type(obj).__name__}, not binary_sequence", what)
        d = obj.data
        if d.shape != (k,):
            raise Violation("C04/stream", f"{what}: asked for {k} bits, got shape {d.shape}", what)
        if d.size and not np.all((d == 0) | (d == 1)):
            raise Violation("C04/stream", f"{what}: non-binary output", what)
        return d

    def _seed_arg(self):
        return self.state

    # -- ops -------------------------------------------------------------------
    def open(self, op):
        self._finish_stream()
        self.order = op["order"]
        s = op["seed"]
        self.state = (np.int64(s) if op.get("np") else s)
        if op.get("arr") and s is not None:
            self.state = np.array(s, dtype=np.int64) if op["arr"] == "0d" else np.array([s], dtype=np.int64)
        self.eff_seed, self.zero_class = effective_seed(self.order, s)
        self.ref = RefLFSR(self.order, self.eff_seed)
        self.ref_ckpt = self.eff_seed
        self.ckpt_state = self.state
        self.committed, self.buffer, self.splits = [], [], []
        self.since_ckpt = []
        self.first_call_pending = True
        self.ckpt_first = True
        self.rec.sig(self.order, "open", "None" if s is None else "zero" if self.zero_class else
                     "neg" if s < 0 else "big" if s >= (1 << self.order) else "in", bool(op.get("np")))
        return f"order={self.order}"

    def _first_call_checks(self, warns, what):
        if self.first_call_pending and self.zero_class:
            if not warns:
                raise Violation("C04/seed0", f"{what}: seed {self.state} is in the zero class mod 2^{self.order} "
                                             f"but no UserWarning was issued", "seed0/nowarn")
            self.rec.probe("zero-class seed replaced with warning")

    def gen(self, op):
        if self.ref is None:
            return "skip"
        k = op["k"]
        what = f"gen/order{self.order}"
        first = self.first_call_pending
        if op.get("pos"):     # the documented positional order: PRBS(order, len, seed, return_seed)
            with seams.warning_tap() as w_:
                out = self.PRBS(self.order, k, self._seed_arg(), True)
            warns = [x for x in w_ if issubclass(x.category, UserWarning)]
            self.rec.probe("positional call form")
        else:
            out, warns = self._call(order=self.order, len=k, seed=self._seed_arg(), return_seed=True)
        if not (isinstance(out, tuple) and len(out) == 2):
            raise Violation("C04/state", f"{what}: return_seed=True did not return (sequence, state): {type(out)}", what)
        bits = self._check_bits(out[0], k, what)
        st = out[1]
        self._first_call_checks(warns, what)
        exp = self.ref.bits(k)
        if not np.array_equal(bits, exp):
            j = int(np.argmax(bits != exp))
            raise Violation("C04/stream", f"{what}: bit {j} of a {k}-bit resumed call differs from the reference "
                                          f"stream (seed {self.eff_seed}, stream offset "
                                          f"{sum(len(b) for b in self.committed + self.buffer)}, first={first})",
                            f"stream/{'first' if first else 'resume'}")
        try:
            st_int = _as_int(st)
        except Exception:
            raise Violation("C04/state", f"{what}: returned state {st!r} is not an integer", "state/type")
        if st_int != self.ref.state:
            raise Violation("C04/state", f"{what}: returned state {st_int:#x} != reference register "
                                         f"{self.ref.state:#x} after {k} bits", "state/value")
        self.state = st
        self.buffer.append(bits.copy())
        self.since_ckpt.append(k)
        if op.get("scrib") and bits.flags.writeable:
            # the caller owns the returned sequence: e.g. error injection in place.  A later identical request
            # (after a crash-restart) must not see it
            bits[:] = 1 - bits
            self.rec.fault("scribble_result")
        self.splits.append(k)
        self.first_call_pending = False
        self.rec.ok_ops += 1
        self.rec.sig(self.order, "gen", _kclass(k, self.order), "first" if first else "resume")
        return core.array_digest(bits)[:10]

    def peek(self, op):
        if self.ref is None:
            return "skip"
        k = op["k"]
        what = f"peek/order{self.order}"
        out, warns = self._call(order=self.order, len=k, seed=self._seed_arg())
        if isinstance(out, tuple):
            raise Violation("C04/state", f"{what}: return_seed=False returned a tuple", what)
        bits = self._check_bits(out, k, what)
        self._first_call_checks(warns, what)
        exp = RefLFSR(self.order, self.ref.state).bits(k)
        if not np.array_equal(bits, exp):
            raise Violation("C04/stream", f"{what}: {k} peeked bits differ from the reference at bit "
                                          f"{int(np.argmax(bits != exp))}", "stream/peek")
        if k % 2 and bits.flags.writeable:
            keep = bits.copy()
            bits[:] = 1 - bits
            out2, _ = self._call(order=self.order, len=k, seed=self._seed_arg())
            if not np.array_equal(out2.data, keep):
                raise Violation("C04/stream", f"{what}: an identical request returns different bits after the caller "
                                              f"wrote into the previously returned sequence", "stream/peek-again")
            bits = keep
        self.rec.ok_ops += 1
        self.rec.sig(self.order, "peek", _kclass(k, self.order))
        return core.array_digest(bits)[:10]

    def default_len(self, op):
        if self.ref is None or self.order > 15:
            return "skip"
        what = f"default_len/order{self.order}"
        period = (1 << self.order) - 1
        first = self.first_call_pending
        out, warns = self._call(order=self.order, seed=self._seed_arg(), return_seed=True)
        bits = self._check_bits(out[0], period, what)
        self._first_call_checks(warns, what)
        exp = self.ref.bits(period)
        if not np.array_equal(bits, exp):
            raise Violation("C04/stream", f"{what}: default-length call differs from reference", "stream/default")
        if _as_int(out[1]) != self.ref.state:
            raise Violation("C04/state", f"{what}: state after one period {_as_int(out[1]):#x} != {self.ref.state:#x}",
                            "state/default")
        if int(bits.sum()) != 1 << (self.order - 1):
            raise Violation("C04/period", f"{what}: {int(bits.sum())} ones in one period", "period/balance")
        self.state = out[1]
        self.buffer.append(bits.copy())
        self.splits.append(period)
        self.first_call_pending = False
        self.rec.ok_ops += 1
        self.rec.sig(self.order, "default_len", "first" if first else "resume")
        return "period"

    def checkpoint(self, op):
        if self.ref is None:
            return "skip"
        self.committed.extend(self.buffer)
        self.buffer = []
        self.since_ckpt = []
        self.ckpt_state = self.state
        self.ref_ckpt = self.ref.state
        self.ckpt_first = self.first_call_pending
        return "ok"

    def crash(self, op):
        if self.ref is None:
            return "skip"
        lost = sum(len(b) for b in self.buffer)
        self.buffer = []
        redo = list(self.since_ckpt)
        self.since_ckpt = []
        self.state = self.ckpt_state
        self.ref.state = self.ref_ckpt
        self.first_call_pending = self.ckpt_first   # raw seed is handed in again if nothing was checkpointed
        if op.get("regen", True):
            # the restarted consumer issues exactly the same requests again (same order, len and seed as before)
            for k_ in redo[:6]:
                self.gen({"k": k_, "pos": False, "scrib": False})
            if redo:
                self.rec.probe("requests re-issued verbatim after a crash")
        if lost:
            self.rec.fault("crash_restart")
        return f"lost={lost}"

    def bad(self, op):
        what = op["what"]
        order = self.order or 7
        kw = {"order": order, "len": 8, "seed": self._seed_arg() if self.ref is not None else 1, "return_seed": True}
        allowed = (TypeError, ValueError)
        if what == "len0":
            kw["len"] = 0
        elif what == "len_neg":
            kw["len"] = -3
        elif what == "len_str":
            kw["len"] = "20"
        elif what == "len_float":
            kw["len"] = 2.0
        elif what == "len_none_kw_ok":
            # not a failure: explicit len=None means the default length; only for small orders
            if order > 11:
                return "skip"
            kw["len"] = None
            out, _ = self._call(**kw)
            if len(out[0].data) != (1 << order) - 1:
                raise Violation("C04/args", f"len=None gave {len(out[0].data)} bits for order {order}", "args/lennone")
            return "ok"
        else:
            # unsupported orders are refused whatever length goes with them (default, unallocatable ...)
            o, _, ln = what[5:].partition(":")
            kw["order"] = int(o)
            if ln == "def":
                kw["len"] = None
            elif ln == "huge":
                kw["len"] = 2 ** 50 + 3
            allowed = (ValueError,)
        try:
            out, _ = self._call(**kw)
        except allowed as e:
            self.rec.fault("failed_call")
            self.rec.sig("bad", what, type(e).__name__)
            return type(e).__name__
        except Exception as e:
            raise Violation("C04/args", f"invalid call {what} raised {type(e).__name__}: {e}; documented: "
                                        f"{'/'.join(a.__name__ for a in allowed)}", f"args/{what}")
        raise Violation("C04/args", f"invalid call {what} was accepted and returned {type(out).__name__}",
                        f"args/{what}")

    def leak(self, op):
        """Rejected calls pile up on the library's timer stack; a valid resumed request must keep working and keep
        returning the same bits at every depth."""
        if self.ref is None:
            return "skip"

        def reject():
            try:
                self.PRBS(order=8, len=10)
            except ValueError:
                pass

        def valid():
            out, _ = self._call(order=self.order, len=5, seed=self._seed_arg(), return_seed=True)
            bits = self._check_bits(out[0], 5, "leak")
            exp = RefLFSR(self.order, self.ref.state).bits(5)
            if not np.array_equal(bits, exp):
                raise Violation("C04/stream", f"leak/order{self.order}: resumed bits differ from the reference at "
                                              f"timer-stack depth {seams.timer_stack_depth()}", "stream/leak")
            return (core.array_digest(bits), _as_int(out[1]))
        return common.leak_sweep(reject, valid, op["upto"], "C04/state", self.rec, op.get("every", 1), "PRBS request")

    def filters(self, op):
        warnings.simplefilter(op["mode"])
        self.rec.fault("filters_toggle")
        return op["mode"]

    # -- history check ----------------------------------------------------------
    def _finish_stream(self):
        if self.ref is None:
            return
        parts = self.committed + self.buffer
        if not parts:
            return
        got = np.concatenate(parts)
        exp = RefLFSR(self.order, self.eff_seed).bits(len(got))
        if not np.array_equal(got, exp):
            j = int(np.argmax(got != exp))
            raise Violation("C04/stream", f"history: concatenation of {len(parts)} delivered pieces "
                                          f"(order {self.order}, seed {self.eff_seed}) deviates from the single-call "
                                          f"reference at bit {j}: a bit was lost, duplicated or reordered",
                            "stream/history")
        # single real call over the whole span must agree as well ("for any split")
        if len(got) <= 20000:
            seed0 = self.eff_seed
            whole, _ = self._call(order=self.order, len=int(len(got)), seed=seed0)
            if not np.array_equal(whole.data, got):
                raise Violation("C04/stream", f"history: one {len(got)}-bit call != the same bits delivered in "
                                              f"{len(self.splits)} resumed calls {self.splits[:12]}", "stream/split")
        self.streams_checked += 1
        self.rec.sig(self.order, "splits", hash_splits(self.splits, self.order))

    def finish(self):
        self._finish_stream()


def hash_splits(splits, order):
    return ".".join(_kclass(k, order) for k in splits[:8])


def _run(spec, rec):
    c = Consumer(rec)
    core.run_ops(c, spec["ops"], rec, "C04/args")
    rec.log("streams", c.streams_checked)


# ----------------------------------------------------------------------------
# identification + computed primitivity
# ----------------------------------------------------------------------------
def _ident(spec, rec):
    from opticomlib.devices import PRBS
    n = spec["order"]
    t = PRBS_TAPS[n]
    rng = random.Random(spec["seed"])
    # (i) identify the one-step map on the unit states
    cols = []
    for j in range(n):
        out, st = PRBS(n, 1, seed=1 << j, return_seed=True)
        if int(out.data[0]) != (1 if j == 0 else 0):
            raise Violation("C04/state", f"order {n}: first output of seed e_{j} is {int(out.data[0])}, not the seed's LSB",
                            "ident/lsb")
        cols.append(int(st))
    T = [0] * n
    for j, col in enumerate(cols):
        for i in range(n):
            if (col >> i) & 1:
                T[i] |= 1 << j
    rec.ok_ops += n
    # (ii) it is the companion map of x^n + x^t + 1 ...
    if T != companion_from_statement(n):
        raise Violation("C04/primitive", f"order {n}: identified one-step map is not the companion map of "
                                         f"a[m]=a[m-{n}] xor a[m-{t}]", "ident/companion")
    # ... and that map is primitive
    period = (1 << n) - 1
    ident = gf2_identity(n)
    if gf2_pow(T, period, n) != ident:
        raise Violation("C04/primitive", f"order {n}: T^(2^n-1) != I", "ident/order")
    qs = prime_factors(period)
    prod_check = 1
    for q in qs:
        prod_check *= q
        if gf2_pow(T, period // q, n) == ident:
            raise Violation("C04/primitive", f"order {n}: T^((2^n-1)/{q}) = I, the map is not primitive",
                            "ident/primitive")
    if period % prod_check:
        raise RuntimeError("factorisation self-check failed")
    TmI = [T[i] ^ ident[i] for i in range(n)]
    if gf2_rank(TmI, n) != n:
        raise Violation("C04/primitive", f"order {n}: T - I is singular (a non-zero fixed state exists)", "ident/fixed")
    rec.probe(f"order {n} primitive (prime factors {qs})")
    # linearity / output tap on random states (black box)
    ns = spec["nstates"]
    for r in range(ns):
        s = rng.randint(1, period)
        if r % 50 == 0:
            k = rng.randint(2, 300)
            out, st = PRBS(n, k, seed=s, return_seed=True)
            if int(st) != gf2_apply(gf2_pow(T, k, n), s, n):
                raise Violation("C04/primitive", f"order {n}: {k}-step state from {s:#x} != T^{k} s (map not linear)",
                                "ident/linear")
            ref = RefLFSR(n, s)
            naive = [ref.step_naive() for _ in range(k)]
            fast = RefLFSR(n, s).bits(k)
            if naive != fast.tolist():
                raise RuntimeError("reference self-check failed: vectorised != literal recurrence")
            if out.data.tolist() != naive:
                raise Violation("C04/stream", f"order {n}: {k} bits from state {s:#x} differ from the recurrence",
                                "ident/bits")
            # backwards relation: bit j of the seed is the output j steps before the first
            rb = RefLFSR(n, s)
            for _ in range(n - 1):
                rb.back()
            pre = RefLFSR(n, rb.state).bits(n)
            if [int(pre[n - 1 - j]) for j in range(n)] != [(s >> j) & 1 for j in range(n)]:
                raise RuntimeError("reference self-check failed: backward relation")
            o2 = PRBS(n, n, seed=rb.state)
            if [int(o2.data[n - 1 - j]) for j in range(n)] != [(s >> j) & 1 for j in range(n)]:
                raise Violation("C04/state", f"order {n}: running the generator from the state {n - 1} steps before "
                                             f"{s:#x} does not output the seed's bits", "ident/seedbits")
        else:
            out, st = PRBS(n, 1, seed=s, return_seed=True)
            if int(out.data[0]) != (s & 1) or int(st) != gf2_apply(T, s, n):
                raise Violation("C04/primitive", f"order {n}: one step from {s:#x} gives bit {int(out.data[0])}, "
                                                 f"state {int(st):#x}; linear map predicts {s & 1}, "
                                                 f"{gf2_apply(T, s, n):#x}", "ident/linear")
        rec.ok_ops += 1
    rec.n_ops += ns + n
    rec.log("ident", n, ns)
    rec.sig("ident", n)


# ----------------------------------------------------------------------------
# walking the whole cycle in resumed chunks
# ----------------------------------------------------------------------------
def _windows_distinct(bits, n):
    P = len(bits)
    ext = np.concatenate([bits, bits[: n - 1]]).astype(np.uint32)
    w = np.zeros(P, dtype=np.uint32)
    for j in range(n):
        w |= ext[j:j + P] << np.uint32(j)
    u = np.unique(w)
    return len(u), int(u[0])


def _cycle(spec, rec):
    from opticomlib.devices import PRBS
    n = spec["order"]
    rng = random.Random(spec["seed"])
    period = (1 << n) - 1
    s0 = rng.randint(1, period)
    ref = RefLFSR(n, s0)
    state = s0
    done = 0
    parts = []
    calls = 0
    while done < period:
        k = min(period - done, rng.choice([1, n, 17, 255, 4096, 65536, rng.randint(1, 1 << 16)]))
        out, st = PRBS(n, k, seed=state, return_seed=True)
        exp = ref.bits(k)
        if not np.array_equal(out.data, exp):
            raise Violation("C04/stream", f"cycle order {n}: chunk at offset {done} (len {k}) differs from reference",
                            "cycle/bits")
        if int(st) != ref.state:
            raise Violation("C04/state", f"cycle order {n}: state after offset {done + k} is {int(st):#x}, "
                                         f"reference {ref.state:#x}", "cycle/state")
        if int(st) == s0 and done + k < period:
            raise Violation("C04/period", f"order {n}: state returned to its start after {done + k} < 2^n-1 bits",
                            "cycle/short")
        parts.append(out.data)
        state = st
        done += k
        calls += 1
    if int(state) != s0:
        raise Violation("C04/period", f"order {n}: after 2^n-1 bits the state is {int(state):#x}, not the start "
                                      f"{s0:#x}", "cycle/closure")
    bits = np.concatenate(parts)
    ones = int(bits.sum())
    if ones != 1 << (n - 1):
        raise Violation("C04/period", f"order {n}: {ones} ones per period, expected {1 << (n - 1)}", "cycle/balance")
    nd, lo = _windows_distinct(bits, n)
    if nd != period or lo == 0:
        raise Violation("C04/period", f"order {n}: {nd} distinct {n}-bit windows in one period (min {lo}); "
                                      f"expected all {period} non-zero states", "cycle/windows")
    rec.n_ops += calls
    rec.ok_ops += calls
    rec.probe(f"full cycle order {n} enumerated", 1)
    rec.probe("cycle bits generated by the library", period)
    rec.log("cycle", n, calls, core.array_digest(bits)[:12])
    rec.sig("cycle", n)


def _chunk(spec, rec):
    from opticomlib.devices import PRBS
    n, c, nch = spec["order"], spec["c"], spec["nchunks"]
    period = (1 << n) - 1
    rng0 = random.Random(spec["seed"])
    s0 = rng0.randint(1, period)
    T = companion_from_statement(n)
    base = (period + nch - 1) // nch
    lo = c * base
    hi = min(period, lo + base)
    rng = random.Random(spec["seed"] ^ (c + 1))
    start = gf2_apply(gf2_pow(T, lo, n), s0, n)
    end = gf2_apply(gf2_pow(T, hi, n), s0, n)
    ref = RefLFSR(n, start)
    state = start
    done = lo
    ones = 0
    calls = 0
    while done < hi:
        k = min(hi - done, rng.choice([1 << 20, 1 << 21, rng.randint(1, 1 << 20), 4096, n]))
        out, st = PRBS(n, k, seed=state, return_seed=True)
        exp = ref.bits(k)
        if not np.array_equal(out.data, exp):
            raise Violation("C04/stream", f"order {n} chunk {c}: bits at offset {done} (len {k}) differ from reference",
                            "chunk/bits")
        if int(st) != ref.state:
            raise Violation("C04/state", f"order {n} chunk {c}: state at offset {done + k} differs", "chunk/state")
        ones += int(out.data.sum())
        state = st
        done += k
        calls += 1
    if int(state) != end:
        raise Violation("C04/period", f"order {n} chunk {c}: end state {int(state):#x} != T^{hi} s0 = {end:#x}; "
                                      f"the chunks do not chain into one cycle", "chunk/chain")
    rec.n_ops += calls
    rec.ok_ops += calls
    rec.probe(f"ones_order{n}", ones)
    rec.probe(f"bits_order{n}", hi - lo)
    rec.probe("cycle bits generated by the library", hi - lo)
    rec.log("chunk", n, c, ones)
    rec.sig("chunk", n, c)


def _long(spec, rec):
    """One very long request in a single call (a fast path for long sequences must still hand back the
    right state), then a short resumed call."""
    from opticomlib.devices import PRBS
    n, k = spec["order"], spec["k"]
    s0 = random.Random(spec["seed"]).randint(1, (1 << n) - 1)
    ref = RefLFSR(n, s0)
    out, st = PRBS(n, k, seed=s0, return_seed=True)
    exp = ref.bits(k)
    if out.data.shape != (k,) or not np.array_equal(out.data, exp):
        j = int(np.argmax(out.data[:len(exp)] != exp[:len(out.data)])) if out.data.shape == (k,) else -1
        raise Violation("C04/stream", f"order {n}: a single {k}-bit call differs from the reference at bit {j}", "long/bits")
    if int(st) != ref.state:
        raise Violation("C04/state", f"order {n}: state returned after a single {k}-bit call is {int(st):#x}, reference "
                                     f"register {ref.state:#x}", "long/state")
    out2, st2 = PRBS(n, 200, seed=st, return_seed=True)
    if not np.array_equal(out2.data, ref.bits(200)) or int(st2) != ref.state:
        raise Violation("C04/stream", f"order {n}: resuming after a single {k}-bit call does not continue the stream",
                        "long/resume")
    rec.n_ops += 2
    rec.ok_ops += 2
    rec.probe("single call longer than 2^22 bits", 1)
    rec.log("long", n, k, core.array_digest(out2.data)[:10])
    rec.sig("long", n, k)


def _cycref(spec, rec):
    """Closure / balance / distinctness of the reference period the chunks were compared with."""
    n = spec["order"]
    period = (1 << n) - 1
    s0 = random.Random(spec["seed"]).randint(1, period)
    T = companion_from_statement(n)
    if gf2_apply(gf2_pow(T, period, n), s0, n) != s0:
        raise Violation("C04/period", f"order {n}: T^(2^n-1) s0 != s0", "cycref/closure")
    if n <= 23:
        ref = RefLFSR(n, s0)
        bits = ref.bits(period)
        if ref.state != s0 or int(bits.sum()) != 1 << (n - 1):
            raise Violation("C04/period", f"order {n}: reference period not closed/balanced", "cycref/balance")
        nd, lo = _windows_distinct(bits, n)
        if nd != period or lo == 0:
            raise Violation("C04/period", f"order {n}: reference period has {nd} distinct windows", "cycref/windows")
    rec.n_ops += 1
    rec.ok_ops += 1
    rec.log("cycref", n)
    rec.sig("cycref", n)


def execute(spec, rec, known):
    clk = seams.install_clock(spec.get("seed", 0) or 0)
    kind = spec.get("kind", "run")
    with warnings.catch_warnings():
        if kind == "run":
            _run(spec, rec)
        else:
            warnings.simplefilter("ignore")
            {"ident": _ident, "cycle": _cycle, "chunk": _chunk, "cycref": _cycref, "long": _long}[kind](spec, rec)
    rec.sim_s = clk.covered


def extra_coverage(tier, specs, results):
    full = sorted({s["order"] for s, r in zip(specs, results) if s.get("kind") == "cycle" and not r.get("viol")})
    chunked = {}
    for s, r in zip(specs, results):
        if s.get("kind") == "chunk" and not r.get("viol"):
            d = chunked.setdefault(s["order"], {"chunks": 0, "ones": 0, "bits": 0, "of": s["nchunks"]})
            d["chunks"] += 1
            d["ones"] += r["probes"].get(f"ones_order{s['order']}", 0)
            d["bits"] += r["probes"].get(f"bits_order{s['order']}", 0)
    for n, d in chunked.items():
        d["complete"] = d["chunks"] == d["of"] and d["bits"] == (1 << n) - 1
        d["balanced"] = d["ones"] == 1 << (n - 1)
    return {"cycle_enumeration": {"orders_full_single_task": full,
                                  "orders_chunked": {str(k): v for k, v in sorted(chunked.items())},
                                  "exhaustive": True,
                                  "note": "enumeration of one deterministic trajectory per order (every non-zero "
                                          "state visited once); labelled as enumeration, not sampling"}}
