"""C14 - global grid stays consistent over any call history; devices are pure, seedable.

Two sub-machines share one run:
 (a) grid reference model: after every gv(...) / gv.clean() the singleton must be
     self-consistent for the values now in force (statement, literally);
 (b) bench session: simulated users interleave public device / codec / DSP / utility
     calls on a shared pool of write-guarded inputs while the simulator injects
     gv_reconf, failed_call, early_return, clock, rng, scribble, freeze, filters and
     print-state faults.  Every call is compared with the *same call executed alone*
     in a pristine process (golden server forked before the session starts, one fork
     per golden call, only the gv ops of the history replayed there).
"""
import os
import pickle
import random
import struct
import sys
import warnings

import numpy as np
from scipy.constants import c as c_light, pi

from sim import core, seams, common
from sim.core import Violation
from checks.c14_catalog import CAT, FAILED, LIGHT, HEAVY, Lib

PROPERTY = "C14"
RULE = ("seeded bench sessions: 2-4 simulated users interleave public calls (devices, ppm, ook, utils, signal methods, "
        "plots) on shared pools of binary/electrical/optical/eye objects whose results re-enter the pools, between gv "
        "reconfigurations (every subset of sps/R/fs, wavelength, N, later calls omitting N, custom keywords, clean()) "
        "and faults (failed calls, retH early returns, clock jump/back/stall/mid-call, rng reseed/unseeded state, "
        "scribble, freeze, warnings filters, print state); distinct = (grid signature, call-name bigram, faults since "
        "last call) signatures in runs with >=3 successful calls")
WALL = {"quick": 300, "thorough": 900, "replay": 600}
BLOCK = {"quick": 100000, "thorough": 2048}
SELFTEST = {"quick": 12, "thorough": 60}
COMPONENTS_REAL = ["opticomlib.typing (gv singleton, signal classes)", "opticomlib.devices (PRBS DAC LASER PM MZM BPF EDFA DM "
                   "FIBER LPF PD ADC GET_EYE SAMPLER FBG)", "opticomlib.ppm", "opticomlib.ook", "opticomlib.utils",
                   "numpy global RandomState", "sklearn KMeans", "matplotlib (Agg)"]
COMPONENTS_STUB = ["opticomlib.utils.tm (SimClock with fault modes)", "sys.stdout (StdoutTap)",
                   "golden executions run in forks of a pristine template that replayed only the gv ops"]
ASSUMPTIONS = [
    "golden reference = the same library call executed alone in a pristine forked process with the same arguments by "
    "value, the same gv history and the same RNG seed/state; comparison bit-for-bit within one process image",
    "which of sps/R/fs wins when a gv call omits some is not modelled: the model reads them back and checks consistency",
    "gv(fs=...) alone is generated as an integer multiple of the R in force (commensurate rates)",
    "FIBER is never given zero-power inputs and its nonlinear step count is bounded by the harness (known hang on "
    "one-polarisation inputs with zero leading samples is a C08 matter, DESIGN 2.6)",
    "plot/psd return the object itself by design and are exempt from the aliasing clause; apply() is only given "
    "functions that return fresh arrays",
    "execution_time is excluded from every comparison",
]
N_RUNS = {"quick": 700, "thorough": 6000}
NONTRIVIAL_OPS = 3
CUSTOM_KEYS = ["alpha", "beta", "G", "NF", "BW", "Vpi", "label"]


def tasks(tier, master):
    return [{"kind": "run", "i": i, "seed": core.derive_seed(master, PROPERTY, tier, i), "tier": tier}
            for i in range(N_RUNS[tier])]


# ----------------------------------------------------------------------------
# generation
# ----------------------------------------------------------------------------
def gen_gv(rng):
    sps = rng.choice([2, 3, 4, 5, 8, 16, 16, 32, 64])
    R = rng.choice([1e9, 2.5e9, 10e9, 25e9, 1e6, 12.5e9, 10e9 / 3])      # the last one is not a whole number of Hz
    form = rng.choice(["sps,R", "sps,fs", "R,fs", "sps,R,fs", "sps", "R", "fsmult", "none", "sps,R", "sps,R"])
    kw = {}
    if form == "fsmult":
        kw["fs_mult"] = rng.choice([2, 4, 8, 16, 3, 64])
    elif form != "none":
        parts = form.split(",")
        if "sps" in parts:
            kw["sps"] = sps if rng.random() < 0.9 else float(sps)
        if "R" in parts:
            kw["R"] = R
        if "fs" in parts:
            kw["fs"] = R * sps
            if "sps" not in parts and rng.random() < 0.35:
                kw["fs"] = float(np.nextafter(R * sps, 0))      # fs = 1/dt from a sampling interval: an ulp below
    if rng.random() < 0.35:
        kw["wavelength"] = rng.choice(common.WL_SET)
    if rng.random() < 0.45:
        kw["N"] = rng.choice([1, 2, 3, 8, 10, 17, 64, 128])
    if rng.random() < 0.3:
        for k in rng.sample(CUSTOM_KEYS, rng.randint(1, 2)):
            kw[k] = rng.choice([0.5, 20, [1.0, 2.0, 3.0], "x", -3])
    return {"op": "gv", "kw": kw}


def generate(seed, tier):
    rng = random.Random(seed)
    n_users = rng.randint(2, 4)
    heavy_left = rng.choice([0, 1, 1, 2])
    ops = []
    if rng.random() < 0.7:
        ops.append(gen_gv(rng))
    fw = {k: rng.choice([0, 1, 2]) for k in ("scribble", "freeze", "clock", "reseed", "filters", "printpol", "failed")}
    w = dict(call=14, gv=3, clean=1, recall=rng.choice([1, 2, 3]), mkgrid=rng.choice([0, 1, 2]))
    leak_at = rng.randrange(5, 30) if rng.random() < 0.06 else None
    w.update(fw)
    kinds = [k for k, c in w.items() for _ in range(c)]
    favourites = rng.sample(LIGHT, min(len(LIGHT), rng.randint(6, 18)))
    for step_ in range(rng.randint(12, 42)):
        if leak_at is not None and step_ == leak_at:
            ops.append({"op": "leakramp", "upto": rng.choice([1100, 300, 600]), "every": rng.choice([1, 1, 7])})
        k = rng.choice(kinds)
        if k == "mkgrid":
            kind_ = rng.choice(["E", "O1", "O2"])
            ops.append({"op": "mkgrid", "kind": kind_})
            # the user then looks at the new signal's axes / spectrum (handle -1 = the newest object of the pool)
            fn_ = rng.choice(["m.w", "m.w", "m.t", "m.call", "m.power"])
            ops.append({"op": "call", "user": rng.randrange(n_users), "fn": fn_, "args": dict(CAT[fn_][1](rng), on=kind_[0]),
                        "in": {"O": -1, "E": -1}, "rng": "seed", "s": rng.getrandbits(31), "keep": False,
                        "rscrib": rng.random() < 0.7})
            continue
        if k == "call":
            if heavy_left and rng.random() < 0.12:
                name = rng.choice(HEAVY if tier == "thorough" or rng.random() < 0.5 else ["GET_EYE", "FBG"])
                if name == "ook.DSP" and rng.random() < 0.7:
                    name = "GET_EYE"
                heavy_left -= 1
            else:
                name = rng.choice(favourites if rng.random() < 0.7 else LIGHT)
            needs, gen, _, flags = CAT[name]
            ops.append({"op": "call", "user": rng.randrange(n_users), "fn": name, "args": gen(rng),
                        "in": {t: rng.getrandbits(12) for t in needs},
                        "rng": rng.choice(["seed", "seed", "state"]), "s": rng.getrandbits(31),
                        "keep": rng.random() < 0.7, "rscrib": rng.random() < 0.25})
        elif k == "recall":
            ops.append({"op": "recall", "k": rng.getrandbits(12), "heavy": rng.random() < 0.5,
                        "s": rng.choice([None, rng.getrandbits(31)])})
        elif k == "gv":
            ops.append(gen_gv(rng))
        elif k == "clean":
            ops.append({"op": "clean"})
        elif k == "scribble":
            ops.append({"op": "scribble", "t": rng.choice(["O", "E", "bits", "arr"]), "h": rng.getrandbits(12),
                        "buf": rng.choice(["signal", "noise"]), "pos": rng.getrandbits(20), "val": rng.choice([0, 1, 0.5])})
        elif k == "freeze":
            ops.append({"op": "freeze", "on": rng.random() < 0.6})
        elif k == "clock":
            ops.append({"op": "clock", "mode": rng.choice(["jump", "back", "stall", "mid_call", "normal"])})
        elif k == "reseed":
            ops.append({"op": "reseed", "s": rng.getrandbits(31)})
        elif k == "filters":
            ops.append({"op": "filters", "mode": rng.choice(["default", "ignore", "always"])})
        elif k == "printpol":
            ops.append({"op": "printpol", "what": rng.choice(["gv", "O", "E", "bits", "repr"]), "h": rng.getrandbits(12)})
        elif k == "failed":
            ops.append({"op": "failed", "what": rng.choice(sorted(FAILED)), "in": {t: rng.getrandbits(12) for t in "OE"},
                        "bits": rng.getrandbits(12)})
    return {"pool_seed": rng.getrandbits(31), "users": n_users, "scale": 64 if rng.random() < 0.012 else 1}, ops


def simplify_op(op):
    if op.get("op") == "call":
        if op["rng"] != "seed":
            yield dict(op, rng="seed")
        if op.get("keep"):
            yield dict(op, keep=False)
    if op.get("op") == "gv":
        kw = op["kw"]
        for k in list(kw):
            if k in CUSTOM_KEYS or k == "wavelength":
                yield dict(op, kw={a: b for a, b in kw.items() if a != k})


# ----------------------------------------------------------------------------
# result digests
# ----------------------------------------------------------------------------
def digest_result(res, L):
    import hashlib
    h = hashlib.sha256()

    def feed(x, depth=0):
        ty = L.ty
        if x is None:
            h.update(b"None")
        elif isinstance(x, (ty.electrical_signal,)):
            h.update(type(x).__name__.encode())
            h.update(str(getattr(x, "n_pol", "-")).encode())
            feed(x.signal, depth + 1)
            feed(x.noise, depth + 1)
        elif isinstance(x, ty.binary_sequence):
            h.update(b"bs")
            feed(x.data, depth + 1)
        elif isinstance(x, ty.eye):
            h.update(b"eye")
            for k in sorted(x.__dict__):
                if k == "execution_time":
                    continue
                h.update(k.encode())
                feed(x.__dict__[k], depth + 1)
        elif isinstance(x, np.ndarray):
            h.update(str(x.dtype).encode() + str(x.shape).encode())
            if x.dtype == object:
                for v in x.reshape(-1):
                    feed(v, depth + 1)
            else:
                h.update(np.ascontiguousarray(x).tobytes())
        elif isinstance(x, (tuple, list)):
            h.update(b"seq%d" % len(x))
            for v in x:
                feed(v, depth + 1)
        elif isinstance(x, (float, np.floating)):
            h.update(np.float64(x).tobytes())
        elif isinstance(x, (complex, np.complexfloating)):
            h.update(np.complex128(x).tobytes())
        elif isinstance(x, (bool, np.bool_, int, np.integer, str)):
            h.update(repr(x if not isinstance(x, (np.integer, np.bool_)) else x.item()).encode())
        else:
            h.update(("obj:" + type(x).__name__).encode())
    feed(res)
    return h.hexdigest()[:24]


def result_buffers(res, L):
    out = []

    def walk(x):
        if isinstance(x, np.ndarray):
            out.append(x)
        elif isinstance(x, (L.ty.electrical_signal,)):
            walk(x.signal)
            walk(x.noise)
        elif isinstance(x, L.ty.binary_sequence):
            walk(x.data)
        elif isinstance(x, L.ty.eye):
            for v in x.__dict__.values():
                walk(v)
        elif isinstance(x, (tuple, list)):
            for v in x:
                walk(v)
    walk(res)
    return out


# ----------------------------------------------------------------------------
# objects by value (for the golden process)
# ----------------------------------------------------------------------------
def to_value(o, L):
    ty = L.ty
    if isinstance(o, ty.optical_signal):
        return ("O", np.array(o.signal), None if o.noise is None else np.array(o.noise), o.n_pol)
    if isinstance(o, ty.electrical_signal):
        return ("E", np.array(o.signal), None if o.noise is None else np.array(o.noise))
    if isinstance(o, ty.binary_sequence):
        return ("bits", np.array(o.data))
    if isinstance(o, ty.eye):
        return ("eye", {k: (np.array(v) if isinstance(v, np.ndarray) else v) for k, v in o.__dict__.items()})
    if isinstance(o, np.ndarray):
        return ("arr", np.array(o))
    raise TypeError(type(o))


def from_value(v, L):
    ty = L.ty
    if v[0] == "O":
        o = ty.optical_signal(v[1], v[2], n_pol=v[3]) if v[2] is not None else ty.optical_signal(v[1], n_pol=v[3])
        return o
    if v[0] == "E":
        return ty.electrical_signal(v[1], v[2]) if v[2] is not None else ty.electrical_signal(v[1])
    if v[0] == "bits":
        return ty.binary_sequence(v[1])
    if v[0] == "arr":
        return np.array(v[1])
    if v[0] == "eye":
        e = ty.eye()
        for k, val in v[1].items():
            setattr(e, k, val)
        return e
    raise TypeError(v[0])


def apply_gv_kw(kw, L):
    kw = dict(kw)
    if "fs_mult" in kw:
        kw["fs"] = L.gv.R * kw.pop("fs_mult")
    with warnings.catch_warnings():
        warnings.simplefilter("ignore")
        L.gv(**kw)


def do_call(L, name, args, inp, rng_mode, s, state):
    """Execute one catalogue call under the given RNG seed/state. -> ('ok', result) | ('exc', class name, from_lib)"""
    if rng_mode == "seed":
        np.random.seed(s)
    else:
        np.random.set_state(state)
    run = CAT[name][2] if name in CAT else None
    try:
        with warnings.catch_warnings():
            warnings.simplefilter("ignore")
            with seams.stdout_tap():
                res = run(L, args, inp) if run else FAILED[name[7:]](L, inp)
        return ("ok", res)
    except Exception as e:
        if "read-only" in str(e):
            raise Violation("C14/arg-write", f"{name}: the library attempted to write to a write-protected argument "
                                             f"buffer: {e}", f"{name}")
        if not core.from_library(e) and not str(e).startswith("harness:"):
            raise
        return ("exc", type(e).__name__)


# ----------------------------------------------------------------------------
# golden server
# ----------------------------------------------------------------------------
def _send(fd, obj):
    data = pickle.dumps(obj, protocol=4)
    os.write(fd, struct.pack("<Q", len(data)))
    view = memoryview(data)
    while view:
        n = os.write(fd, view)
        view = view[n:]


def _recv(fd):
    hdr = b""
    while len(hdr) < 8:
        b = os.read(fd, 8 - len(hdr))
        if not b:
            return None
        hdr += b
    n = struct.unpack("<Q", hdr)[0]
    chunks = []
    while n:
        b = os.read(fd, min(n, 1 << 20))
        if not b:
            return None
        chunks.append(b)
        n -= len(b)
    return pickle.loads(b"".join(chunks))


def golden_server(rfd, wfd):
    """Runs in a pristine fork.  Applies gv ops itself; forks one grandchild per call."""
    L = Lib()
    seams.install_clock(0)
    while True:
        req = _recv(rfd)
        if req is None or req[0] == "quit":
            os._exit(0)
        if req[0] == "gv":
            try:
                apply_gv_kw(req[1], L)
            except Exception:
                pass
            _send(wfd, ("ok",))
        elif req[0] == "clean":
            L.gv.clean()
            _send(wfd, ("ok",))
        elif req[0] == "call":
            _, name, args, inputs, rng_mode, s, state = req
            r, w = os.pipe()
            pid = os.fork()
            if pid == 0:
                os.close(r)
                try:
                    seams.install_clock(0)
                    inp = {t: from_value(v, L) for t, v in inputs.items()}
                    out = do_call(L, name, args, inp, rng_mode, s, state)
                    ans = ("ok", digest_result(out[1], L)) if out[0] == "ok" else ("exc", out[1])
                except BaseException as e:  # noqa
                    import traceback
                    ans = ("harness", traceback.format_exc()[-1500:])
                _send(w, ans)
                os._exit(0)
            os.close(w)
            ans = _recv(r)
            os.close(r)
            os.waitpid(pid, 0)
            _send(wfd, ans if ans is not None else ("harness", "golden grandchild died"))


class Golden:
    def __init__(self):
        a_r, a_w = os.pipe()    # run -> server
        b_r, b_w = os.pipe()    # server -> run
        sys.stdout.flush()
        pid = os.fork()
        if pid == 0:
            os.close(a_w)
            os.close(b_r)
            try:
                golden_server(a_r, b_w)
            finally:
                os._exit(0)
        os.close(a_r)
        os.close(b_w)
        self.pid, self.w, self.r = pid, a_w, b_r

    def ask(self, *req):
        _send(self.w, req)
        ans = _recv(self.r)
        if ans is None:
            raise RuntimeError("golden server died")
        if ans[0] == "harness":
            raise RuntimeError("golden process failed: " + ans[1])
        return ans

    def close(self):
        try:
            _send(self.w, ("quit",))
            os.close(self.w)
            os.close(self.r)
            os.waitpid(self.pid, 0)
        except Exception:
            pass


# ----------------------------------------------------------------------------
# the bench
# ----------------------------------------------------------------------------
class Bench:
    def __init__(self, cfg, rec):
        self.golden = Golden()          # forked first: pristine
        self.L = Lib()
        self.rec = rec
        self.clock = seams.install_clock(cfg.get("pool_seed", 0))
        self.frozen = False
        self.pool = {t: [] for t in ("O", "E", "bits", "eye", "arr")}
        self.static = {t: 0 for t in self.pool}
        self.dig = {}
        self.customs = {}
        self.last_call = "-"
        self.faults_since = []
        self.history = []        # (op, inputs) of earlier calls, for recall
        self._build_pool(cfg.get("pool_seed", 0), int(cfg.get("scale", 1)))

    # -- static shared inputs (harness-made, numpy only + constructors) ------------------------
    def _build_pool(self, seed, scale=1):
        """scale > 1: a few sessions work on long records (size-dependent fast paths)."""
        rs = np.random.RandomState(seed)
        ty = self.L.ty
        if scale > 1:
            self.rec.probe("session on long records")
        b1 = rs.randint(0, 2, 64 * scale).astype(np.uint8)
        b1[:4] = [1, 0, 1, 1]
        b2 = rs.randint(0, 2, 96).astype(np.uint8)
        onehot = np.zeros(64 * scale, dtype=np.uint8)
        onehot[rs.randint(0, 4, 16 * scale) + 4 * np.arange(16 * scale)] = 1
        for b in (b1, b2, onehot):
            self._add("bits", ty.binary_sequence(b), static=True)
        w1 = np.kron(b1, np.ones(16)) * 1.0
        self._add("E", ty.electrical_signal(w1, rs.normal(0, 0.03, w1.size)), static=True)
        w2 = np.kron(b2, np.ones(8)) * 0.5 + 0.1
        self._add("E", ty.electrical_signal(w2), static=True)
        self._add("E", ty.electrical_signal(rs.uniform(0, 1, 128), rs.normal(0, 0.01, 128)), static=True)
        n = 1024 * scale
        t = np.arange(n)
        f1 = 0.03 * (0.6 + 0.4 * np.kron(b1, np.ones(16))) * np.exp(1j * 0.02 * t)
        self._add("O", ty.optical_signal(f1, 1e-3 * (rs.randn(n) + 1j * rs.randn(n))), static=True)
        f2 = np.vstack([f1, 0.5 * f1 * np.exp(1j * 0.7)])
        self._add("O", ty.optical_signal(f2, 1e-3 * (rs.randn(2, n) + 1j * rs.randn(2, n))), static=True)
        f3 = 0.02 * (1 + 0.3 * np.cos(0.1 * np.arange(256))) * np.exp(1j * rs.uniform(0, 6.28, 1))
        self._add("O", ty.optical_signal(np.vstack([f3, 0.3 * f3])), static=True)
        self._add("O", ty.optical_signal(f3.copy()), static=True)
        e = ty.eye(mu0=0.1, mu1=1.0, s0=0.05, s1=0.08, threshold=0.5, t_opt=0.0, i=8)
        self._add("eye", e, static=True)
        # caller-owned plain ndarrays: a time vector that does not start at 0, drive waveforms, a threshold array
        self._add("arr", (np.arange(256) + 37) * 6.25e-11, static=True)
        self._add("arr", rs.uniform(-4, 4, 1024 * scale), static=True)
        self._add("arr", rs.uniform(-4, 4, 256), static=True)
        self._add("arr", rs.uniform(0.2, 0.8, 1024 * scale), static=True)
        self._add("arr", rs.rand(64) < 0.35, static=True)           # a thresholded (bool) slot record with damaged symbols
        self._add("arr", onehot.astype(bool), static=True)

    def _bufs(self, o):
        if isinstance(o, np.ndarray):
            return [o]
        return [b for b in (getattr(o, "signal", None), getattr(o, "noise", None), getattr(o, "data", None))
                if isinstance(b, np.ndarray)] + ([v for v in o.__dict__.values() if isinstance(v, np.ndarray)]
                                                 if isinstance(o, self.L.ty.eye) else [])

    def _odig(self, o):
        return tuple(seams.buf_digest(b) for b in self._bufs(o)) + \
            ((repr(sorted((k, repr(v)) for k, v in o.__dict__.items() if not isinstance(v, np.ndarray)
                          and k != "execution_time")),) if isinstance(o, self.L.ty.eye) else ())

    def _add(self, t, o, static=False):
        if self.frozen:
            seams.set_writeable(self._bufs(o), False)
        self.pool[t].append(o)
        self.dig[id(o)] = self._odig(o)
        if static:
            self.static[t] += 1
        elif len(self.pool[t]) > self.static[t] + 5:
            old = self.pool[t].pop(self.static[t])
            self.dig.pop(id(old), None)

    def _all(self):
        for t in self.pool:
            for o in self.pool[t]:
                yield t, o

    def _pool_unchanged(self, what, oracle="C14/arg-mutated"):
        for t, o in self._all():
            if self._odig(o) != self.dig[id(o)]:
                raise Violation(oracle, f"{what}: the sample data of a shared {t} object changed", f"{what.split(':')[0]}")

    # -- interpreter ----------------------------------------------------------------------------------
    def apply(self, op, step):
        self.rec.n_ops += 1
        out = getattr(self, "op_" + op["op"])(op)
        self.rec.log(step, op["op"], op.get("fn", ""), out)

    # -- (a) grid reference model ------------------------------------------------------------------------
    def _grid_check(self, what):
        gv = self.L.gv
        d = gv.__dict__

        def bad(key, msg):
            raise Violation("C14/grid", f"{what}: {msg}; gv = {seams.gv_describe()}", f"grid/{key}")
        sps, R, fs = d.get("sps"), d.get("R"), d.get("fs")
        if not isinstance(sps, (int, np.integer)) or isinstance(sps, bool) or sps < 1:
            bad("sps", f"sps={sps!r} is not a positive integer")
        if abs(fs - R * sps) > 1e-12 * abs(fs):
            bad("fs", f"fs={fs!r} != R*sps = {R!r}*{sps!r}")
        if abs(d.get("dt") - 1 / fs) > 1e-12 / abs(fs):
            bad("dt", f"dt={d.get('dt')!r} != 1/fs = {1 / fs!r}")
        if abs(d.get("f0") - c_light / d.get("wavelength")) > 1e-12 * abs(d.get("f0")):
            bad("f0", f"f0={d.get('f0')!r} != c/wavelength")
        N = d.get("N")
        if N is not None:
            n = N * sps
            t, w, dw = d.get("t"), d.get("w"), d.get("dw")
            if not isinstance(t, np.ndarray) or t.shape != (n,):
                bad("t", f"N={N} is in effect with sps={sps} but t has shape {getattr(t, 'shape', None)}, expected ({n},)")
            if not isinstance(w, np.ndarray) or w.shape != (n,):
                bad("w", f"N={N} is in effect with sps={sps} but w has shape {getattr(w, 'shape', None)}, expected ({n},)")
            t_ref = np.linspace(0, n * (1 / fs), n, endpoint=True)
            if not np.allclose(t, t_ref, rtol=1e-12, atol=1e-15 * t_ref[-1] if n > 1 else 1e-30):
                bad("t", f"t is not the {n}-point grid of the current fs={fs!r} (t[-1]={t[-1]!r}, expected {t_ref[-1]!r})")
            w_ref = 2 * pi * np.fft.fftshift(np.fft.fftfreq(n)) * fs
            if not np.allclose(w, w_ref, rtol=1e-12, atol=1e-12 * abs(fs)):
                bad("w", f"w is not 2*pi*fftshift(fftfreq({n}))*fs for the current fs={fs!r}")
            if dw is None or abs(dw - 2 * pi * fs / n) > 1e-12 * abs(dw):
                bad("dw", f"dw={dw!r} != 2*pi*fs/(N*sps) = {2 * pi * fs / n!r}")
        for k, v in self.customs.items():
            if k not in d or repr(d[k]) != repr(v):
                bad("custom", f"custom attribute {k}={v!r} set earlier is now {d.get(k, '<missing>')!r}")

    def op_gv(self, op):
        kw = dict(op["kw"])
        try:
            apply_gv_kw(kw, self.L)
        except Exception as e:
            raise Violation("C14/grid", f"gv({kw}) raised {type(e).__name__}: {e}", "grid/raise")
        self.golden.ask("gv", op["kw"])
        for k in kw:
            if k in CUSTOM_KEYS:
                self.customs[k] = kw[k]
        self._grid_check(f"after gv({kw})")
        self.rec.fault("gv_reconf")
        self.faults_since.append("gv")
        self.rec.ok_ops += 1
        if "N" not in kw and self.L.gv.N is not None:
            self.rec.probe("gv call omitting N while N in effect")
        self._pool_unchanged("gv")
        return seams.gv_snapshot()[:10]

    def op_clean(self, op):
        gv = self.L.gv
        gv.clean()
        self.golden.ask("clean")
        self.customs = {}
        d = gv.__dict__
        exp = {"sps": 16, "R": 1e9, "fs": 16e9, "dt": 1 / 16e9, "wavelength": 1550e-9, "f0": c_light / 1550e-9,
               "N": None, "t": None, "dw": None, "w": None}
        for k, v in exp.items():
            if k not in d or not (d[k] is None if v is None else (d[k] is not None and abs(d[k] - v) <= 1e-12 * abs(v))):
                raise Violation("C14/grid", f"after clean(): {k}={d.get(k)!r}, default is {v!r}", "grid/clean")
        extra = sorted(set(d) - set(exp))
        if extra:
            raise Violation("C14/grid", f"after clean(): custom attributes {extra} are still present", "grid/clean")
        self._grid_check("after clean()")
        self.rec.ok_ops += 1
        self.faults_since.append("clean")
        return "clean"

    # -- (b) calls -----------------------------------------------------------------------------------------
    def _inputs(self, sel):
        inp = {}
        for t, h in sel.items():
            if not self.pool[t]:
                return None
            inp[t] = self.pool[t][h % len(self.pool[t])]
        return inp

    def _one_call(self, name, args, inp, rng_mode, s, what, keep, flags):
        L = self.L
        state = np.random.get_state() if rng_mode == "state" else None
        values = {t: to_value(o, L) for t, o in inp.items()}
        gv0 = seams.gv_snapshot()
        out = do_call(L, name, args, inp, rng_mode, s, state)
        # (1) gv untouched
        if seams.gv_snapshot() != gv0:
            raise Violation("C14/gv-mutated", f"{what}: the call changed gv: now {seams.gv_describe()}", f"{name}")
        # (2) arguments untouched
        self._pool_unchanged(f"{name}: {what}")
        dig = digest_result(out[1], L) if out[0] == "ok" else None
        # (3) no aliasing of inputs
        if out[0] == "ok" and "self" not in flags:
            gv_arrays = [v for v in L.gv.__dict__.values() if isinstance(v, np.ndarray)]
            for rb in result_buffers(out[1], L):
                for ga in gv_arrays:
                    if seams.shares(rb, ga):
                        raise Violation("C14/alias", f"{what}: a result buffer is (a view of) one of gv's own arrays; a "
                                                     f"caller writing into the result would change the global grid",
                                        f"{name}")
                for t, o in self._all():
                    for pb in self._bufs(o):
                        if seams.shares(rb, pb):
                            raise Violation("C14/alias", f"{what}: a result buffer shares memory with a shared {t} input",
                                            f"{name}")
        # (5) immediate repeat under the same seed/state
        out2 = do_call(L, name, args, inp, rng_mode, s, state)
        if out2[0] != out[0] or (out[0] == "ok" and digest_result(out2[1], L) != dig) or \
                (out[0] == "exc" and out2[1] != out[1]):
            raise Violation("C14/seed-repeat", f"{what}: repeating the call after restoring numpy's random "
                                               f"{'seed ' + str(s) if rng_mode == 'seed' else 'state'} does not "
                                               f"reproduce it bit-for-bit ({out[0]}/{out2[0]})", f"{name}")
        self._pool_unchanged(f"{name}: {what} (repeat)")
        # (4) isolated golden execution
        g = self.golden.ask("call", name, args, values, rng_mode, s, state)
        if g[0] != out[0] or (out[0] == "ok" and g[1] != dig) or (out[0] == "exc" and g[1] != out[1]):
            raise Violation("C14/history-dep", f"{what}: result differs from the same call executed alone in a pristine "
                                               f"process with the same arguments, grid and random state (here: "
                                               f"{out[0]} {dig or out[1]}, isolated: {g[0]} {g[1]}); timer stack depth "
                                               f"{seams.timer_stack_depth()}, clock mode {self.clock.mode}, faults since "
                                               f"last call {self.faults_since}", f"{name}")
        return out

    def op_recall(self, op):
        """Re-issue an earlier call verbatim (same arguments, same input objects) after whatever happened since -
        typically a gv reconfiguration: a result memoised on too small a key now disagrees with the isolated run."""
        if not self.history:
            return "skip"
        cands = [h for h in self.history if "heavy" in CAT[h[0]["fn"]][3]] if op.get("heavy") else []
        cands = cands or self.history
        old, inp = cands[op["k"] % len(cands)]
        if any(self.dig.get(id(o)) is None for o in inp.values()):
            return "skip-dropped"
        new = dict(old, keep=False, rscrib=False)
        if op.get("s") is not None:
            new["s"] = op["s"]
            new["rng"] = "seed"
        self.rec.probe("recall of an earlier call")
        return "recall:" + self.op_call(new, inp)

    def op_call(self, op, inp=None):
        name = op["fn"]
        needs, _, _, flags = CAT[name]
        if inp is None:
            inp = self._inputs(op["in"])
        if inp is None:
            return "skip"
        what = f"user{op['user']} {name}({op['args']})"
        out = self._one_call(name, op["args"], inp, op["rng"], op["s"], what, op.get("keep"), flags)
        if len(self.history) < 40:
            self.history.append((op, inp))
        # the caller scribbles into the *result* and asks again: a returned buffer that is really a cached
        # internal one would now give a different answer than the isolated execution did
        scribbled = False
        if op.get("rscrib") and out[0] == "ok" and "self" not in flags:
            dig0 = digest_result(out[1], self.L)
            gv_before_scribble = seams.gv_snapshot()
            hit = 0
            for rb in result_buffers(out[1], self.L):
                if rb.flags.writeable and rb.size and rb.dtype.kind in "fciub":
                    flat = rb.reshape(-1)
                    flat[0] = 1 if rb.dtype.kind in "ub" else flat[0] + 1
                    flat[-1] = 0
                    hit += 1
            if hit:
                scribbled = True
                self.rec.fault("scribble_result")
                self._pool_unchanged(f"{name}: scribble on the result", oracle="C14/alias")
                if seams.gv_snapshot() != gv_before_scribble:
                    raise Violation("C14/alias", f"{what}: writing into the returned object changed gv", f"{name}")
                again = self._one_call(name, op["args"], inp, op["rng"], op["s"], what + " [again, after the caller "
                                       "wrote into the previous result]", False, flags)
                if op["rng"] == "seed" and (again[0] != "ok" or digest_result(again[1], self.L) != dig0):
                    raise Violation("C14/history-dep", f"{what}: the same call gives a different result after the caller "
                                                       f"wrote into the previously returned object", f"{name}")
                out = again
        self.rec.sig(self._grid_sig(), self.last_call + ">" + name, ",".join(sorted(set(self.faults_since))) or "-")
        self.last_call = name
        self.faults_since = []
        if seams.timer_stack_depth() > 0:
            self.rec.probe("timer-stack leak observed")
        if out[0] == "exc":
            self.rec.probe(f"call raised {out[1]}")
            self.rec.probe(f"exc:{name}:{out[1]}")
            return "exc:" + out[1]
        self.rec.ok_ops += 1
        self.rec.probe(f"ok:{name}")
        res = out[1]
        if op.get("keep") and "self" not in flags and not (scribbled and False):
            self._keep(res)
        import matplotlib.pyplot as plt
        if name in ("m.plot", "m.psd"):
            plt.close("all")
        return "ok:" + digest_result(res, self.L)[:10]

    def _keep(self, res):
        ty = self.L.ty
        items = res if isinstance(res, tuple) else (res,)
        for r in items:
            if isinstance(r, ty.optical_signal):
                if np.all(np.isfinite(r.signal)) and (r.noise is None or np.all(np.isfinite(r.noise))) and len(r) >= 32:
                    self._add("O", r)
            elif isinstance(r, ty.electrical_signal):
                if np.all(np.isfinite(r.signal)) and (r.noise is None or np.all(np.isfinite(r.noise))) and len(r) >= 32:
                    self._add("E", r)
            elif isinstance(r, ty.binary_sequence):
                if 8 <= len(r) <= 300000:
                    self._add("bits", r)
            elif isinstance(r, ty.eye):
                self._add("eye", r)

    def _grid_sig(self):
        gv = self.L.gv
        return f"{gv.sps}/{int(np.log10(gv.R))}/{'N' if gv.N is not None else '-'}/{len(self.customs)}"

    def op_failed(self, op):
        name = "failed:" + op["what"]
        sel = dict(op["in"])
        sel["bits"] = op["bits"]
        inp = self._inputs(sel)
        if inp is None:
            return "skip"
        depth0 = seams.timer_stack_depth()
        out = self._one_call(name, {}, inp, "seed", 1, f"failed call {op['what']}", False, frozenset())
        self.rec.fault("failed_call")
        self.faults_since.append("failed")
        if seams.timer_stack_depth() > depth0:
            self.rec.probe("failed call leaked a tic entry")
        return out[0] + ":" + str(out[1])[:20]

    def op_mkgrid(self, op):
        """A user builds a signal on the global time grid (the documented idiom `gv.t`): its length is N*sps."""
        gv = self.L.gv
        if gv.N is None or not isinstance(gv.t, np.ndarray) or not (32 <= gv.t.size <= 8192):
            return "skip"
        t = np.array(gv.t)
        ty = self.L.ty
        if op["kind"] == "E":
            self._add("E", ty.electrical_signal(0.5 + 0.4 * np.sin(2 * np.pi * gv.R * t)))
        elif op["kind"] == "O1":
            self._add("O", ty.optical_signal(0.02 * np.exp(2j * np.pi * gv.R * t)))
        else:
            f = 0.02 * np.exp(2j * np.pi * gv.R * t)
            self._add("O", ty.optical_signal(np.vstack([f, 0.5 * f])))
        self.rec.probe("signal built on gv.t (length N*sps)")
        return f"grid:{t.size}"

    def op_leakramp(self, op):
        """Many failed calls leak tic() entries; at every timer-stack depth on the way a nested device call
        (DAC with a bandwidth -> LPF inside) must still work and give the result it gave at depth 0."""
        L = self.L
        bits = self.pool["bits"][0]
        bw = 0.3 * L.gv.fs

        def nested():
            with warnings.catch_warnings():
                warnings.simplefilter("ignore")
                return digest_result(L.dv.DAC(bits, 0.0, 1.0, "nrz", bw), L)
        try:
            base = nested()
            d0 = seams.timer_stack_depth()
            k = 0
            while seams.timer_stack_depth() < op["upto"] and k < 2000:
                try:
                    L.dv.PRBS(8, 10)
                except ValueError:
                    pass
                k += 1
                if k % op["every"] == 0 and nested() != base:
                    raise Violation("C14/history-dep", f"DAC(BW) gives a different result at timer-stack depth "
                                                       f"{seams.timer_stack_depth()} than at depth {d0}", "leakramp/DAC")
        except Violation:
            raise
        except Exception as e:
            if not core.from_library(e):
                raise
            raise Violation("C14/history-dep", f"after {seams.timer_stack_depth()} leaked tic() entries (failed calls "
                                               f"earlier in the session) a nested device call raised {type(e).__name__}: {e}",
                            "leakramp/raise")
        self.rec.fault("leak_ramp")
        self.faults_since.append("leak")
        self.rec.probe("timer-stack depth swept", seams.timer_stack_depth() - d0)
        return f"depth:{seams.timer_stack_depth()}"

    # -- faults --------------------------------------------------------------------------------------------------
    def op_scribble(self, op):
        objs = self.pool[op["t"]]
        if not objs:
            return "skip"
        o = objs[op["h"] % len(objs)]
        if op["t"] == "arr":
            buf = o
        else:
            buf = getattr(o, op["buf"], None) if op["t"] != "bits" else o.data
            if buf is None:
                buf = getattr(o, "signal", None)
        if buf is None or not buf.flags.writeable:
            return "skip"
        flat = buf.reshape(-1)
        v = op["val"]
        flat[op["pos"] % flat.size] = (int(v) % 2) if (op["t"] == "bits" or buf.dtype == bool) else v
        self.dig[id(o)] = self._odig(o)
        self._pool_unchanged("scribble", oracle="C14/alias")
        self.rec.fault("scribble")
        self.faults_since.append("scribble")
        return "hit"

    def op_freeze(self, op):
        self.frozen = bool(op["on"])
        for t, o in self._all():
            seams.set_writeable(self._bufs(o), not self.frozen)
        if self.frozen:
            self.rec.fault("freeze")
            self.faults_since.append("freeze")
        return str(self.frozen)

    def op_clock(self, op):
        self.clock.mode = op["mode"]
        if op["mode"] != "normal":
            self.rec.fault("clock_" + op["mode"])
            self.faults_since.append("clock")
        return op["mode"]

    def op_reseed(self, op):
        np.random.seed(op["s"])
        self.rec.fault("rng_reseed")
        self.faults_since.append("reseed")
        return op["s"]

    def op_filters(self, op):
        warnings.simplefilter(op["mode"])
        self.rec.fault("filters_toggle")
        self.faults_since.append("filters")
        return op["mode"]

    def op_printpol(self, op):
        try:
            with seams.stdout_tap():
                w = op["what"]
                if w == "gv":
                    self.L.gv.print()
                elif w == "repr":
                    for t in ("O", "E", "bits"):
                        if self.pool[t]:
                            repr(self.pool[t][op["h"] % len(self.pool[t])])
                elif self.pool[w]:
                    self.pool[w][op["h"] % len(self.pool[w])].print()
        except Exception as e:
            # printing is only a pollution source here (S7); e.g. pympler's asizeof rejects numpy views
            # such as the .real output of LPF ("invalid option: reset(base=-912)") - not a C14 matter
            if not core.from_library(e):
                raise
            self.rec.probe(f"print raised {type(e).__name__}")
        self.rec.fault("print_state")
        self.faults_since.append("print")
        self._pool_unchanged("print")
        return str(np.get_printoptions()["precision"])

    def finish(self):
        self.golden.close()


def execute(spec, rec, known):
    b = Bench(spec.get("cfg", {}), rec)
    try:
        core.run_ops(b, spec["ops"], rec, "C14/history-dep", "C14/arg-write")
    finally:
        b.golden.close()
    rec.sim_s = b.clock.covered
