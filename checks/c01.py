"""C01 - signal containers keep their shape/noise contract; operands are never touched.

Value-pool simulation of expression programs over electrical_signal / optical_signal
against a plain array model (total field + noise presence), with the faults of
DESIGN.md 2.4: caller scribble (in-place write to a live object's public buffer after it
was used), freeze (operands write-protected), gv_reconf (the grid is reconfigured
between ops; the algebra must not care).
"""
import random
import warnings

import numpy as np

from sim import core, seams, common
from sim.core import Violation

PROPERTY = "C01"
RULE = ("seeded programs of constructor / + - * (plain, reflected, scalar, container, len-1, mismatched) / slice / "
        "copy / domain-transform ops over a pool of <=8 live electrical/optical signals whose results re-enter the "
        "pool (expression depth >= 6), with scribble / freeze / gv_reconf faults, checked op by op against an array "
        "model; distinct = (op, class+layout, rhs kind, noise pattern, dtype kinds, length class, outcome) "
        "signatures reached in runs with >=3 successful library ops")
WALL = {"quick": 300, "thorough": 900, "replay": 600}
BLOCK = {"quick": 100000, "thorough": 8192}
SELFTEST = {"quick": 24, "thorough": 200}
COMPONENTS_REAL = ["opticomlib.typing.electrical_signal", "opticomlib.typing.optical_signal", "opticomlib.typing.gv",
                   "opticomlib.utils.str2array", "numpy"]
COMPONENTS_STUB = ["opticomlib.utils.tm (SimClock)"]
ASSUMPTIONS = [
    "field semantics of * are not asserted (statement gives none): only contract, class, layout, length, non-aliasing",
    "objects of different class or polarisation count are not combined (undefined by the statement)",
    "a length-1 object on the LEFT of a longer operand may either broadcast correctly or raise ValueError",
    "ndarray / numpy scalar on the left and numpy-integer indices are not generated",
    "when n_pol is not given the library's choice of polarisation count is accepted and values are checked under it",
    "constructor forms scalar+noise with n_pol=2 and empty inputs may be rejected with ValueError/TypeError",
    "out-of-range int index may raise IndexError; empty selections must be rejected (non-empty contract) with ValueError",
    "text made only of digits 0/1 is a bit pattern (C19 rule) and is modelled as the values 0/1",
]
N_RUNS = {"quick": 8000, "thorough": 40000}
LENGTHS = [1, 2, 3, 5, 7, 16, 17, 31, 64, 257, 4096]


def tasks(tier, master):
    return [{"kind": "run", "i": i, "seed": core.derive_seed(master, PROPERTY, tier, i), "tier": tier}
            for i in range(N_RUNS[tier])]


# ----------------------------------------------------------------------------
# generation
# ----------------------------------------------------------------------------
SIG_FORMS = ["ndarray", "ndarray", "list", "tuple", "str", "strbits", "scalar", "npscalar", "arr_bool", "list_bool"]
RHS_KINDS = ["obj", "obj", "obj", "pyint", "pyfloat", "pycomplex", "list", "tuple", "str", "strbits", "ndarray",
             "npscalar", "len1list", "len1arr", "badlen_list", "badlen_arr", "list2d", "arr2d"]
RHS_REFL = ["pyint", "pyfloat", "pycomplex", "list", "tuple", "str", "len1list"]


def _gen_new(rng, base_len, cls=None):
    cls = cls or rng.choice(["E", "O"])
    form = rng.choice(SIG_FORMS)
    n = base_len if rng.random() < 0.65 else rng.choice(LENGTHS[:9])
    if form in ("scalar", "npscalar"):
        n = 1
    op = {"op": "new", "cls": cls, "form": form, "n": n, "dseed": rng.getrandbits(32),
          "base": rng.choice(["int", "float", "complex", "complex"]),
          "noise": rng.choice([None, None, "same", "same", "float", "str"]),
          "dtype": rng.choice([None, None, None, "match"])}
    if cls == "O":
        op["layout"] = rng.choice(["1d", "1d", "1xN", "2xN", "2xN"]) if form not in ("scalar", "npscalar") else "scalar"
        op["n_pol"] = rng.choice([None, None, 1, 2])
    return op


def generate(seed, tier):
    rng = random.Random(seed)
    base_len = rng.choice(LENGTHS if rng.random() < 0.9 else [65536 if tier == "thorough" else 4096])
    if base_len >= 4096 and rng.random() < 0.7:
        base_len = rng.choice(LENGTHS[:9])
    if rng.random() < 0.002:            # size-dependent fast paths: a few runs work on very long records
        base_len = rng.choice([(1 << 17) + 1, (1 << 20) + 3, 300007])
    cls_bias = rng.choice([None, "E", "O"])
    w = {"new": 5, "renew": 2, "binop": 12, "slice": 5, "copy": 2, "call": 2, "scribble": rng.choice([0, 2, 4]),
         "freeze": rng.choice([0, 1, 2]), "gv": rng.choice([0, 1]), "drop": 1}
    kinds = [k for k, c in w.items() for _ in range(c)]
    ops = []
    if rng.random() < 0.5:
        ops.append(common.gen_gv_op(rng))
    ops.append(_gen_new(rng, base_len, cls_bias))
    ops.append(_gen_new(rng, base_len, cls_bias))
    for _ in range(rng.randint(10, 38)):
        k = rng.choice(kinds)
        if k == "renew":
            # the same constructor call again (same text, same values): must give a fresh, correct object whatever
            # happened to the first one meanwhile
            olds = [o for o in ops if o.get("op") == "new"]
            ops.append(dict(rng.choice(olds)))
            continue
        if k == "new":
            ops.append(_gen_new(rng, base_len, cls_bias if rng.random() < 0.8 else None))
        elif k == "binop":
            refl = rng.random() < 0.25
            ops.append({"op": "binop", "o": rng.choice("+-+-*"), "a": rng.getrandbits(16), "b": rng.getrandbits(16),
                        "rhs": rng.choice(RHS_REFL if refl else RHS_KINDS), "refl": refl,
                        "base": rng.choice(["int", "float", "complex"]), "dseed": rng.getrandbits(32)})
        elif k == "slice":
            if rng.random() < 0.4:
                ops.append({"op": "slice", "a": rng.getrandbits(16), "int": rng.randint(-5000, 5000),
                            "oob": rng.random() < 0.08})
            else:
                def v():
                    return None if rng.random() < 0.4 else rng.randint(-70, 70)
                ops.append({"op": "slice", "a": rng.getrandbits(16),
                            "sl": [v(), v(), rng.choice([None, None, 1, 2, 3, -1, -2, 7])]})
        elif k == "copy":
            ops.append({"op": "copy", "a": rng.getrandbits(16), "n": rng.choice([None, None, 1, 2, 5, 100000])})
        elif k == "call":
            ops.append({"op": "call", "a": rng.getrandbits(16), "dom": rng.choice(["w", "f", "t"]),
                        "shift": rng.random() < 0.5})
        elif k == "scribble":
            ops.append({"op": "scribble", "a": rng.getrandbits(16), "buf": rng.choice(["signal", "noise"]),
                        "pos": rng.getrandbits(20), "mode": rng.choice(["elem", "elem", "slice", "whole"]),
                        "val": rng.choice([0, 1, -7, 3.5, 1e6])})
        elif k == "freeze":
            ops.append({"op": "freeze", "on": rng.random() < 0.6})
        elif k == "gv":
            ops.append(common.gen_gv_op(rng))
        elif k == "drop":
            ops.append({"op": "drop", "a": rng.getrandbits(16)})
    return {"pool_max": 8}, ops


def simplify_op(op):
    if op.get("op") == "new":
        if op["n"] > 2:
            yield dict(op, n=2)
            yield dict(op, n=max(1, op["n"] // 2))
        if op["base"] != "int":
            yield dict(op, base="int")
        if op.get("noise"):
            yield dict(op, noise=None)
        if op["form"] not in ("list", "scalar", "npscalar"):
            yield dict(op, form="list")
        if op.get("dtype"):
            yield dict(op, dtype=None)
        if op.get("layout") in ("1xN", "2xN") and op.get("n_pol") is None:
            yield dict(op, layout="1d")
    if op.get("op") == "binop" and op["rhs"] not in ("obj", "pyint"):
        yield dict(op, rhs="pyint")


# ----------------------------------------------------------------------------
# data helpers
# ----------------------------------------------------------------------------
def _values(rs, shape, base):
    if base == "int":
        return rs.randint(-9, 10, shape).astype(np.int64)
    if base == "float":
        return rs.randint(-40, 41, shape) / 8.0
    return rs.randint(-40, 41, shape) / 8.0 + 1j * (rs.randint(-40, 41, shape) / 8.0)


def _fmt(v):
    if isinstance(v, (complex, np.complexfloating)):
        return f"{v.real!r}{v.imag:+}j".replace("+-", "-")
    if isinstance(v, (float, np.floating)):
        return repr(float(v))
    return str(int(v))


def _to_text(arr):
    arr = np.asarray(arr)
    if arr.ndim == 2:
        return "; ".join(_to_text(r) for r in arr)
    return (", " if arr.size % 2 else " ").join(_fmt(v) for v in arr)


def _avoid_bit_text(arr):
    """Numeric text must not consist only of digits 0/1 (that would be a bit pattern)."""
    arr = np.array(arr)
    txt = _to_text(arr)
    if set(txt) <= set("01 ,;"):
        arr.flat[0] = 2
    return arr


def _form(arr, form):
    """arr: ndarray (1-D or 2-D) -> the python object handed to the library, guard ndarray or None."""
    if form == "ndarray":
        a = np.array(arr)
        return a, a
    if form == "list":
        return np.asarray(arr).tolist(), None
    if form == "tuple":
        x = np.asarray(arr).tolist()
        return (tuple(tuple(r) for r in x) if np.asarray(arr).ndim == 2 else tuple(x)), None
    if form == "str":
        return _to_text(arr), None
    if form == "strbits":
        a = np.asarray(arr)
        if a.ndim == 2:
            return ";".join("".join(str(int(v)) for v in r) for r in a), None
        return "".join(str(int(v)) for v in a), None
    if form == "arr_bool":
        a = np.asarray(arr).astype(bool)
        return a, a
    if form == "list_bool":
        return np.asarray(arr).astype(bool).tolist(), None
    raise ValueError(form)


def _lenclass(n):
    return "1" if n == 1 else "2" if n == 2 else "s" if n <= 31 else "m" if n <= 300 else "L" if n <= 70000 else "XL"


def _kind(dt):
    return np.dtype(dt).kind


# ----------------------------------------------------------------------------
# the machine
# ----------------------------------------------------------------------------
class Entry:
    __slots__ = ("obj", "cls", "npol", "total", "has_noise", "dig", "depth")


class Machine:
    def __init__(self, cfg, rec, known):
        from opticomlib.typing import electrical_signal, optical_signal
        self.E, self.O = electrical_signal, optical_signal
        self.rec = rec
        self.pool = []
        self.frozen = False
        self.pool_max = cfg.get("pool_max", 8)
        self.clock = seams.install_clock(0)

    # ---- invariants -----------------------------------------------------------
    def _contract(self, o, cls, what):
        C = self.E if cls == "E" else self.O
        if type(o) is not C:
            raise Violation("C01/contract", f"{what}: result is {type(o).__name__}, expected {C.__name__}", what)
        s, nz = o.signal, o.noise
        if not isinstance(s, np.ndarray):
            raise Violation("C01/contract", f"{what}: .signal is {type(s).__name__}", what)
        if cls == "E":
            ok = s.ndim == 1 and s.size >= 1
            npol = None
        else:
            npol = getattr(o, "n_pol", None)
            if npol == 1:
                ok = s.ndim == 1 and s.size >= 1
            elif npol == 2:
                ok = s.ndim == 2 and s.shape[0] == 2 and s.shape[1] >= 1
            else:
                ok = False
        if not ok:
            raise Violation("C01/contract", f"{what}: signal shape {s.shape} with n_pol={npol} breaks the layout "
                                            f"contract of {C.__name__}", what)
        if nz is not None:
            if not isinstance(nz, np.ndarray) or nz.shape != s.shape:
                raise Violation("C01/contract", f"{what}: noise shape {getattr(nz, 'shape', type(nz).__name__)} != "
                                                f"signal shape {s.shape}", what)
        n = s.shape[-1]
        if len(o) != n or o.len() != n:
            raise Violation("C01/contract", f"{what}: len()={len(o)} but {n} samples per polarisation", what)
        return npol

    @staticmethod
    def _total(o):
        s = np.asarray(o.signal).astype(np.complex128)
        return s if o.noise is None else s + np.asarray(o.noise).astype(np.complex128)

    @staticmethod
    def _dig(o):
        return (seams.buf_digest(o.signal), seams.buf_digest(o.noise))

    def _check_pool(self, what):
        for k, e in enumerate(self.pool):
            self._contract(e.obj, e.cls, f"{what}/pool[{k}]")
            if self._dig(e.obj) != e.dig:
                raise Violation("C01/operand-mutated", f"{what}: live object #{k} ({e.cls}, n_pol={e.npol}, "
                                                       f"len={len(e.obj)}) is no longer bit-for-bit what it was", what)

    def _no_alias(self, res, what, extra=()):
        rb = [b for _, b in seams.obj_buffers(res)]
        for k, e in enumerate(self.pool):
            if e.obj is res:
                raise Violation("C01/alias", f"{what}: returned the operand itself (pool #{k}), not a new object", what)
            for _, pb in seams.obj_buffers(e.obj):
                for b in rb:
                    if seams.shares(b, pb):
                        raise Violation("C01/alias", f"{what}: a result buffer shares memory with live object #{k}", what)
        for a in extra:
            for b in rb:
                if a is not None and seams.shares(b, a):
                    raise Violation("C01/alias", f"{what}: a result buffer shares memory with an input array", what)
        if res.noise is not None and seams.shares(res.signal, res.noise):
            raise Violation("C01/alias", f"{what}: .signal and .noise of the result share memory", what)

    def _push(self, o, cls, npol, total, has_noise, depth):
        e = Entry()
        e.obj, e.cls, e.npol, e.total, e.has_noise, e.depth = o, cls, npol, np.array(total, dtype=np.complex128), has_noise, depth
        if self.frozen:
            seams.set_writeable([o.signal, o.noise], False)
        e.dig = self._dig(o)
        self.pool.append(e)
        if len(self.pool) > self.pool_max:
            self.pool.pop(0)
        if depth >= 6:
            self.rec.probe("expression depth >= 6 reached")
        return e

    def _get(self, h):
        return self.pool[h % len(self.pool)] if self.pool else None

    # ---- interpreter -------------------------------------------------------------
    def apply(self, op, step):
        self.rec.n_ops += 1
        with warnings.catch_warnings():
            warnings.simplefilter("ignore")
            out = getattr(self, "op_" + op["op"])(op)
        self.rec.log(step, op["op"], out)
        self._check_pool(f"after {op['op']}")

    # ---- constructors ---------------------------------------------------------------
    def op_new(self, op):
        rs = np.random.RandomState(op["dseed"])
        cls, form, n, base = op["cls"], op["form"], op["n"], op["base"]
        if form in ("strbits", "arr_bool", "list_bool"):
            base = "int"
        layout = op.get("layout", "1d") if cls == "O" else "1d"
        n_pol = op.get("n_pol") if cls == "O" else None
        scalar = form in ("scalar", "npscalar")
        if n > 70000 and form in ("str", "strbits", "list", "tuple", "list_bool"):
            form = "ndarray" if form != "list_bool" else "arr_bool"
        if n > 70000 and op.get("noise") == "str":
            op = dict(op, noise="same")
        if layout == "1xN" and (form in ("str", "strbits") or op.get("noise") == "str"):
            layout = "1d"        # a single row of text is 1-D by the parsing rule
        shape = () if scalar else (n,) if layout == "1d" else (1, n) if layout == "1xN" else (2, n)
        sig = _values(rs, shape, base)
        if form in ("strbits", "arr_bool", "list_bool"):
            sig = np.abs(sig) % 2
        noise_kind = op.get("noise")
        noise = None
        if noise_kind:
            nb = base if noise_kind in ("same", "str") else ("float" if base != "complex" else "complex")
            noise = _values(rs, shape, nb)
        dtype = None
        if op.get("dtype") == "match":
            kinds = {_kind(sig.dtype)} | ({_kind(noise.dtype)} if noise is not None else set())
            dtype = complex if "c" in kinds else float if "f" in kinds else int
        # build arguments
        guards = []
        if scalar:
            v = sig.item()
            sarg = v if form == "scalar" else sig.dtype.type(v)
            narg = None if noise is None else noise.item()
        else:
            f = form
            if f == "str":
                sig = _avoid_bit_text(sig)
            sarg, g = _form(sig, f)
            guards.append(g)
            narg = None
            if noise is not None:
                nf = "str" if noise_kind == "str" else (form if form not in ("str", "strbits", "arr_bool", "list_bool") else "list")
                if nf == "str":
                    noise = _avoid_bit_text(noise)
                narg, g2 = _form(noise, nf)
                guards.append(g2)
        gcopies = [None if g is None else g.copy() for g in guards]
        if self.frozen:
            seams.set_writeable([g for g in guards if g is not None], False)
        kw = {}
        if dtype is not None:
            kw["dtype"] = dtype
        if cls == "O" and n_pol is not None:
            kw["n_pol"] = n_pol
        what = f"new/{cls}/{form}/{layout}/npol{n_pol}"
        exotic = (cls == "O" and scalar and noise is not None and n_pol == 2)
        C = self.E if cls == "E" else self.O
        try:
            o = C(sarg, narg, **kw) if narg is not None else C(sarg, **kw)
        except (ValueError, TypeError) as e:
            if exotic:
                self.rec.probe("exotic constructor form rejected")
                self.rec.sig("new", cls, form, layout, n_pol, "rejected")
                return "rejected"
            raise Violation("C01/reject", f"{what}: valid constructor form rejected: {type(e).__name__}: {e} "
                                          f"(signal={str(sarg)[:60]!r} noise={str(narg)[:40]!r} kw={kw})", what)
        npol = self._contract(o, cls, what)
        if cls == "O" and n_pol is not None and npol != n_pol:
            raise Violation("C01/contract", f"{what}: requested n_pol={n_pol}, object has n_pol={npol}", what)

        # expected values under the (given or chosen) polarisation count
        def lay(x):
            x = np.asarray(x).astype(np.complex128)
            if cls == "E":
                return x.reshape(-1) if x.ndim == 0 else x
            if x.ndim == 0:
                x = x.reshape(1)
            rows = x if x.ndim == 2 else x[None, :]
            if npol == 1:
                return rows[0]
            return np.vstack([rows[0], rows[1] if rows.shape[0] == 2 else rows[0]])
        es = lay(sig)
        if o.signal.shape != es.shape or not np.array_equal(o.signal.astype(np.complex128), es):
            raise Violation("C01/value", f"{what}: stored signal {str(o.signal)[:80]} != input {str(es)[:80]}", what)
        if (o.noise is None) != (noise is None):
            raise Violation("C01/value", f"{what}: noise presence wrong (given={noise is not None})", what)
        if noise is not None and not np.array_equal(o.noise.astype(np.complex128), lay(noise)):
            raise Violation("C01/value", f"{what}: stored noise {str(o.noise)[:80]} != input {str(lay(noise))[:80]}", what)
        for g, gc in zip(guards, gcopies):
            if g is not None and not np.array_equal(g, gc):
                raise Violation("C01/operand-mutated", f"{what}: an input array was modified", what)
        self._no_alias(o, what, guards)
        total = es if noise is None else es + lay(noise)
        self._push(o, cls, npol, total, noise is not None, 1)
        self.rec.ok_ops += 1
        self.rec.sig("new", cls, form, layout, n_pol, npol, "n" if noise is not None else "-", _kind(o.signal.dtype),
                     _lenclass(len(o)))
        if cls == "O" and npol == 2 and len(o) == 1:
            self.rec.probe("two-polarisation object of length 1")
        return f"ok:{cls}{npol}:{len(o)}"

    # ---- binary operators ----------------------------------------------------------------
    def op_binop(self, op):
        ea = self._get(op["a"])
        if ea is None:
            return "skip"
        a = ea.obj
        n = len(a)
        kind, o_, refl = op["rhs"], op["o"], op["refl"]
        rs = np.random.RandomState(op["dseed"])
        base = op["base"]
        guard = None
        eb = None
        expect_err = False
        b_has_noise = False
        if kind == "obj":
            if refl:
                return "skip"
            eb = self._get(op["b"])
            if eb.cls != ea.cls or eb.npol != ea.npol:
                self.rec.probe("binop skipped: different class/layout")
                return "skip-mix"
            other, bt = eb.obj, eb.total
            b_has_noise = eb.has_noise
            nb = len(eb.obj)
            if nb != n and nb != 1:
                expect_err = True
        else:
            two_d = kind in ("list2d", "arr2d")
            if two_d and not (ea.cls == "O" and ea.npol == 2):
                kind = "list" if kind == "list2d" else "ndarray"
                two_d = False
            if kind in ("pyint", "pyfloat", "pycomplex", "npscalar"):
                v = _values(rs, (), {"pyint": "int", "pyfloat": "float", "pycomplex": "complex"}.get(kind, base))
                bt = np.asarray(v).astype(np.complex128).reshape(1)
                other = v.item() if kind != "npscalar" else v.dtype.type(v.item())
            else:
                m = n
                if kind in ("len1list", "len1arr"):
                    m = 1
                elif kind.startswith("badlen"):
                    m = n + rs.randint(1, 4) if (n <= 2 or rs.rand() < 0.5) else n - 1
                    if m == 1:
                        m = n + 2
                    expect_err = True
                shape = (2, m) if two_d else (m,)
                if kind == "strbits":
                    vals = rs.randint(0, 2, shape)
                else:
                    vals = _values(rs, shape, base)
                bt = vals.astype(np.complex128)
                if kind in ("list", "len1list", "badlen_list", "list2d"):
                    other = vals.tolist()
                elif kind == "tuple":
                    other = tuple(vals.tolist())
                elif kind == "str":
                    vals = _avoid_bit_text(vals)
                    bt = vals.astype(np.complex128)
                    other = _to_text(vals)
                elif kind == "strbits":
                    other = "".join(str(int(v)) for v in vals)
                else:
                    other = np.array(vals)
                    guard = other
        gcopy = None if guard is None else guard.copy()
        if self.frozen and guard is not None:
            guard.setflags(write=False)
        what = f"binop/{ea.cls}{ea.npol or ''}/{o_}/{'r' if refl else ''}{kind}"
        left_len1 = (n == 1 and bt.shape[-1] > 1)
        try:
            if o_ == "+":
                res = (other + a) if refl else (a + other)
            elif o_ == "-":
                res = (other - a) if refl else (a - other)
            else:
                res = (other * a) if refl else (a * other)
        except ValueError as e:
            if expect_err or left_len1:
                self.rec.probe("mismatched lengths rejected with ValueError")
                self.rec.sig("binop", ea.cls, ea.npol, o_, kind, "ValueError")
                return "ValueError"
            raise Violation("C01/reject", f"{what}: defined operation raised ValueError: {e}", what)
        except Exception as e:
            if expect_err:
                raise Violation("C01/reject", f"{what}: mismatched lengths ({n} vs {bt.shape[-1]}) raised "
                                              f"{type(e).__name__} instead of ValueError: {e}", what)
            raise Violation("C01/reject", f"{what}: defined operation raised {type(e).__name__}: {e} "
                                          f"(lhs dtype {a.signal.dtype}, rhs {str(other)[:60]!r})", what)
        if expect_err:
            raise Violation("C01/reject", f"{what}: operands of lengths {n} and {bt.shape[-1]} were accepted "
                                          f"(result len {len(res) if hasattr(res, '__len__') else '?'})", what)
        npol = self._contract(res, ea.cls, what)
        if ea.cls == "O" and npol != ea.npol:
            raise Violation("C01/contract", f"{what}: polarisation count changed {ea.npol} -> {npol}", what)
        exp_len = max(n, bt.shape[-1]) if left_len1 else n
        if len(res) != exp_len:
            raise Violation("C01/contract", f"{what}: result length {len(res)}, expected {exp_len}", what)
        if guard is not None and not np.array_equal(guard, gcopy):
            raise Violation("C01/operand-mutated", f"{what}: container operand modified", what)
        self._no_alias(res, what, [guard])
        has_noise = ea.has_noise or b_has_noise
        actual = self._total(res)
        if o_ in "+-":
            at = ea.total
            if refl and o_ == "-":
                exp = bt - at
            elif o_ == "-":
                exp = at - bt
            else:
                exp = at + bt
            exp = np.broadcast_to(exp, actual.shape) if exp.shape != actual.shape and exp.size <= actual.size else exp
            mag = float(np.max(np.abs(at))) + float(np.max(np.abs(bt)))   # cancellation: error scales with the operands
            if exp.shape != actual.shape or not common.close(actual, exp, rtol=1e-12, atol=4e-15 * mag):
                j = None
                if exp.shape == actual.shape:
                    j = int(np.argmax(np.abs(actual - exp)))
                raise Violation("C01/value", f"{what}: total field of result != {'difference' if o_ == '-' else 'sum'} "
                                             f"of operand total fields (shape {actual.shape} vs {exp.shape}; flat idx {j}: "
                                             f"got {actual.flat[j] if j is not None else '-'} expected "
                                             f"{exp.flat[j] if j is not None else '-'}; lhs dtype {a.signal.dtype})", what)
            if (res.noise is not None) != has_noise:
                raise Violation("C01/value", f"{what}: result carries noise={res.noise is not None} but operands "
                                             f"carry noise: lhs={ea.has_noise} rhs={b_has_noise}", what)
            total = exp
        else:
            total = actual
            has_noise = res.noise is not None
        depth = 1 + max(ea.depth, eb.depth if eb else 0)
        self._push(res, ea.cls, npol, total, has_noise, depth)
        self.rec.ok_ops += 1
        self.rec.sig("binop", ea.cls, ea.npol, o_, ("r" if refl else "") + kind,
                     ("n" if ea.has_noise else "-") + ("n" if b_has_noise else "-"),
                     _kind(a.signal.dtype) + _kind(res.signal.dtype), _lenclass(n))
        if bt.shape[-1] == 1 and n > 1:
            self.rec.probe("len-1 / scalar broadcast taken")
        if eb is not None and eb.obj is a:
            self.rec.probe("x op x (same object both sides)")
        return f"ok:{core.array_digest(actual)[:10]}"

    # ---- slicing / copy -----------------------------------------------------------------------
    def _sliced(self, ea, key, what, exp_idx):
        a = ea.obj
        s0 = a.signal.copy()
        n0 = None if a.noise is None else a.noise.copy()
        try:
            res = a[key] if not callable(key) else key()
        except Exception as e:
            return None, e
        npol = self._contract(res, ea.cls, what)
        if ea.cls == "O" and npol != ea.npol:
            raise Violation("C01/contract", f"{what}: polarisation count changed {ea.npol} -> {npol} "
                                            f"(len {len(a)} -> {len(res)})", what)
        es = s0[..., exp_idx]
        if es.ndim < s0.ndim or (es.ndim == 0):
            es = es.reshape(s0.shape[:-1] + (1,))
        if res.signal.shape != es.shape or not np.array_equal(res.signal, es):
            raise Violation("C01/value", f"{what}: signal samples {str(res.signal)[:70]} != selected {str(es)[:70]}", what)
        if (res.noise is None) != (n0 is None):
            raise Violation("C01/value", f"{what}: noise presence changed by slicing", what)
        if n0 is not None:
            en = n0[..., exp_idx]
            if en.ndim < n0.ndim or en.ndim == 0:
                en = en.reshape(n0.shape[:-1] + (1,))
            if not np.array_equal(res.noise, en):
                raise Violation("C01/value", f"{what}: noise samples {str(res.noise)[:70]} != selected {str(en)[:70]}", what)
        self._no_alias(res, what)
        tot = ea.total[..., exp_idx]
        if tot.ndim < ea.total.ndim or tot.ndim == 0:
            tot = tot.reshape(ea.total.shape[:-1] + (1,))
        self._push(res, ea.cls, npol, tot, ea.has_noise, ea.depth + 1)
        self.rec.ok_ops += 1
        return res, None

    def op_slice(self, op):
        ea = self._get(op["a"])
        if ea is None:
            return "skip"
        n = len(ea.obj)
        lay = f"{ea.cls}{ea.npol or ''}"
        if "int" in op:
            if op.get("oob"):
                idx = n + abs(op["int"]) % 3 if op["int"] >= 0 else -n - 1 - abs(op["int"]) % 3
                try:
                    r = ea.obj[idx]
                except IndexError:
                    self.rec.sig("slice", lay, "oob", "IndexError")
                    return "IndexError"
                except Exception as e:
                    raise Violation("C01/reject", f"slice/{lay}/oob: index {idx} of {n} raised {type(e).__name__}: {e}",
                                    f"slice/{lay}/oob")
                raise Violation("C01/value", f"slice/{lay}/oob: index {idx} outside {n} samples returned "
                                             f"{str(getattr(r, 'signal', r))[:60]}", f"slice/{lay}/oob")
            idx = op["int"] % (2 * n) - n
            form = "int" if idx >= 0 else "negint"
            what = f"slice/{lay}/{form}"
            res, err = self._sliced(ea, idx, what, idx)
            if err is not None:
                raise Violation("C01/reject", f"{what}: x[{idx}] on {n} samples raised {type(err).__name__}: {err}", what)
            if len(res) != 1:
                raise Violation("C01/contract", f"{what}: integer index returned {len(res)} samples", what)
            if ea.cls == "O" and ea.npol == 2:
                self.rec.probe("2-pol int slice")
            self.rec.sig("slice", lay, form, _lenclass(n), "n" if ea.has_noise else "-")
            return "ok:1"
        s = slice(*op["sl"])
        sel = range(n)[s]
        step = op["sl"][2] or 1
        form = "slice" + ("-step" if step != 1 else "") + ("-neg" if step < 0 else "")
        what = f"slice/{lay}/{form}"
        if len(sel) == 0:
            try:
                r = ea.obj[s]
            except ValueError:
                self.rec.probe("empty selection rejected")
                self.rec.sig("slice", lay, form, "empty", "ValueError")
                return "empty-ValueError"
            except Exception as e:
                raise Violation("C01/reject", f"{what}: empty selection raised {type(e).__name__}: {e}", what)
            raise Violation("C01/contract", f"{what}: empty selection x[{s}] of {n} samples returned an object with "
                                            f"signal shape {getattr(r.signal, 'shape', None)} (non-empty contract)", what)
        res, err = self._sliced(ea, s, what, s)
        if err is not None:
            raise Violation("C01/reject", f"{what}: x[{s}] on {n} samples raised {type(err).__name__}: {err}", what)
        if len(res) != len(sel):
            raise Violation("C01/contract", f"{what}: {len(res)} samples returned, {len(sel)} selected", what)
        if len(sel) == 1 and ea.cls == "O" and ea.npol == 2:
            self.rec.probe("2-pol sliced down to length 1")
        self.rec.sig("slice", lay, form, _lenclass(len(sel)), "n" if ea.has_noise else "-")
        return f"ok:{len(sel)}"

    def op_copy(self, op):
        ea = self._get(op["a"])
        if ea is None:
            return "skip"
        n = len(ea.obj)
        k = op["n"]
        lay = f"{ea.cls}{ea.npol or ''}"
        what = f"copy/{lay}/{'all' if k is None else 'n'}"
        m = n if k is None else min(k, n)
        a = ea.obj
        res, err = self._sliced(ea, (lambda: a.copy()) if k is None else (lambda: a.copy(k)), what, slice(0, m))
        if err is not None:
            raise Violation("C01/reject", f"{what}: copy({k}) raised {type(err).__name__}: {err}", what)
        if len(res) != m:
            raise Violation("C01/contract", f"{what}: copy({k}) of {n} samples has {len(res)}", what)
        self.rec.sig("copy", lay, "all" if k is None else "n", _lenclass(m))
        return f"ok:{m}"

    # ---- domain transform ---------------------------------------------------------------------
    def op_call(self, op):
        ea = self._get(op["a"])
        if ea is None:
            return "skip"
        a = ea.obj
        lay = f"{ea.cls}{ea.npol or ''}"
        what = f"call/{lay}/{op['dom']}{'/shift' if op['shift'] else ''}"
        try:
            res = a(op["dom"], shift=op["shift"])
        except Exception as e:
            raise Violation("C01/reject", f"{what}: raised {type(e).__name__}: {e}", what)
        npol = self._contract(res, ea.cls, what)
        if ea.cls == "O" and npol != ea.npol:
            raise Violation("C01/contract", f"{what}: polarisation count changed {ea.npol} -> {npol}", what)
        if len(res) != len(a) or res.signal.shape != a.signal.shape:
            raise Violation("C01/contract", f"{what}: shape {a.signal.shape} -> {res.signal.shape}", what)
        if (res.noise is not None) != ea.has_noise:
            raise Violation("C01/value", f"{what}: noise presence changed by the transform", what)
        self._no_alias(res, what)
        self._push(res, ea.cls, npol, self._total(res), ea.has_noise, ea.depth + 1)
        self.rec.ok_ops += 1
        self.rec.sig("call", lay, op["dom"], op["shift"], _lenclass(len(a)))
        return "ok:" + core.array_digest(res.signal)[:10]

    # ---- faults -----------------------------------------------------------------------------------
    def op_scribble(self, op):
        e = self._get(op["a"])
        if e is None:
            return "skip"
        buf = getattr(e.obj, op["buf"], None)
        if buf is None:
            buf = e.obj.signal
        if not buf.flags.writeable:
            return "skip-frozen"
        flat = buf.reshape(-1)
        val = op["val"]
        if _kind(buf.dtype) in "iub":
            val = int(val) % 2 if _kind(buf.dtype) == "b" else int(val)
        if op["mode"] == "whole":
            buf[...] = val
        elif op["mode"] == "slice":
            p = op["pos"] % flat.size
            flat[p: p + 3] = val
        else:
            flat[op["pos"] % flat.size] = val
        e.total = self._total(e.obj)
        e.dig = self._dig(e.obj)
        self.rec.fault("scribble")
        return "hit"

    def op_freeze(self, op):
        self.frozen = bool(op["on"])
        for e in self.pool:
            seams.set_writeable([e.obj.signal, e.obj.noise], not self.frozen)
        if self.frozen and self.pool:
            self.rec.fault("freeze")
        return str(self.frozen)

    def op_gv(self, op):
        common.apply_gv(op["kw"])
        self.rec.fault("gv_reconf")
        return seams.gv_snapshot()[:8]

    def op_drop(self, op):
        if len(self.pool) > 2:
            self.pool.pop(op["a"] % len(self.pool))
            return "dropped"
        return "skip"


def execute(spec, rec, known):
    m = Machine(spec.get("cfg", {}), rec, known)
    core.run_ops(m, spec["ops"], rec, "C01/reject", "C01/operand-write")
    rec.sim_s = m.clock.covered
