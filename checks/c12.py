"""C12 - PPM encode/decode is a bijection on whole symbols; HDD/SDD emit valid codewords.

Link simulation: sender (PPM_ENCODER) -> slot channel with injected faults -> receiver
(HDD -> PPM_DECODER, or DAC -> SDD).  HDD's random choices are served by the simulator
(first / last / scripted enumeration of every answer / real seeded), so "keeps one of
the slots that were ON" is decided for every served choice.  A labelled exhaustive
baseline enumerates all bit strings <= 12 and all slot patterns <= 16 slots (M <= 8).
"""
import itertools
import random
import warnings

import numpy as np

from sim import core, seams, common
from sim.core import Violation
from sim.seams import ScriptedRNG

PROPERTY = "C12"
RULE = ("seeded link histories: frames of random bits -> PPM_ENCODER -> faulty slot channel (flip / erase / burst / "
        "stuck / extra-ON) -> HDD with simulator-served random choices -> PPM_DECODER, and DAC -> perturbation -> SDD "
        "frames, interleaved with gv (sps) reconfiguration, RNG reseeding and invalid-argument calls; distinct = "
        "(M, container, fault kinds in frame, RNG mode, outcome) signatures in runs with >=3 successful frames; "
        "'exh_*' tasks enumerate all words <=12 bits and all slot patterns <=16 slots for M<=8")
WALL = {"quick": 300, "thorough": 900, "replay": 600}
BLOCK = {"quick": 100000, "thorough": 16384}
SELFTEST = {"quick": 24, "thorough": 200}
COMPONENTS_REAL = ["opticomlib.ppm.PPM_ENCODER", "opticomlib.ppm.PPM_DECODER", "opticomlib.ppm.HDD", "opticomlib.ppm.SDD",
                   "opticomlib.devices.DAC", "opticomlib.utils.dec2bin", "opticomlib.utils.str2array",
                   "opticomlib.typing.binary_sequence/electrical_signal/gv"]
COMPONENTS_STUB = ["np.random.randint/choice inside Layer-B frames (ScriptedRNG)", "opticomlib.utils.tm (SimClock)",
                   "the optical channel between encoder and decoder (slot-level fault injector)"]
ASSUMPTIONS = [
    "for a symbol that arrives with no ON slot HDD may raise any slot (statement only constrains multi-ON symbols)",
    "SDD is compared with an independent argmax of per-slot sums only where the argmax of summed amplitude and of "
    "summed energy agree and the margin to the runner-up is clear (the statement says 'integrated energy', the code "
    "integrates amplitude)",
    "M in {2,...,256}; M < 2 is not generated",
    "DAC is trusted to produce the slot waveform (C05's subject)",
]
N_RUNS = {"quick": 2000, "thorough": 50000}
ORDERS = [2, 4, 8, 16, 32, 64, 128, 256]
FORMS = ["str", "str_sp", "str_comma", "str_mixed", "list", "tuple", "arr", "arr_bool", "bs"]


def tasks(tier, master):
    specs = [{"kind": "run", "i": i, "seed": core.derive_seed(master, PROPERTY, tier, i), "tier": tier}
             for i in range(N_RUNS[tier])]
    for M in ORDERS:
        specs.append({"kind": "exh_codec", "i": M, "M": M})
    for M, slots in ((2, range(2, 17, 2)), (4, (4, 8, 12, 16)), (8, (8, 16))):
        for S in slots:
            parts = 16 if S >= 16 else 4 if S >= 14 else 1
            for p_ in range(parts):
                specs.append({"kind": "exh_hdd", "i": M * 10000 + S * 100 + p_, "M": M, "S": S, "part": p_, "parts": parts})
    return specs


# ----------------------------------------------------------------------------
# generation
# ----------------------------------------------------------------------------
def _gen_faults(rng, nsym, M, rate):
    faults = []
    if nsym == 0 or rate == 0:
        return faults
    if nsym > 200:
        rate = min(rate, 20.0 / nsym)      # long codewords: a handful of damaged symbols
    for s in range(nsym):
        if rng.random() < rate:
            k = rng.choice(["flip", "flip", "erase", "extra", "extra", "stuck", "burst"])
            if k == "flip":
                faults.append(["flip", s * M + rng.randrange(M)])
            elif k == "erase":
                faults.append(["erase", s])
            elif k == "extra":
                faults.append(["extra", s, rng.randrange(M), rng.randint(1, 3)])
            elif k == "stuck":
                faults.append(["stuck", s])
            else:
                faults.append(["burst", s * M + rng.randrange(M), rng.randint(2, 2 * M)])
    return faults


def generate(seed, tier):
    rng = random.Random(seed)
    ops = []
    rate = rng.choice([0.0, 0.05, 0.15, 0.3, 0.6])
    Ms = rng.sample(ORDERS, rng.randint(1, 3)) if rng.random() < 0.8 else ORDERS
    w = {"frame": 10, "sdd": 4, "gv": 1, "bad": 1, "reseed": rng.choice([0, 1, 2]), "d2b": rng.choice([0, 1]),
         "leak": rng.choice([0, 0, 1])}
    kinds = [k for k, c in w.items() for _ in range(c)]
    for _ in range(rng.randint(6, 16)):
        k = rng.choice(kinds)
        if k == "frame":
            M = rng.choice(Ms)
            kb = M.bit_length() - 1
            nsym = rng.choice([0, 1, 1, 2, 3, 5, 8, 16, 40])
            if rng.random() < 0.02:
                nsym = rng.choice([5000, 30000, 70000]) if M <= 16 else 3000
            nbits = nsym * kb + (rng.randrange(kb) if rng.random() < 0.3 else 0)
            ops.append({"op": "frame", "M": M, "nbits": nbits, "bseed": rng.getrandbits(32),
                        "form": rng.choice(FORMS), "form2": rng.choice(FORMS),
                        "faults": _gen_faults(rng, nsym, M, rate),
                        "hdd": rng.choice(["first", "last", "enum", "enum", "real", "real"]),
                        "hseed": rng.getrandbits(32), "hform": rng.choice(FORMS)})
        elif k == "sdd":
            M = rng.choice([m for m in Ms if m <= 64] or [4])
            ops.append({"op": "sdd", "M": M, "nsym": rng.choice([1, 2, 3, 8]), "bseed": rng.getrandbits(32),
                        "shape": rng.choice(["nrz", "rz", "gaussian"]), "amp": rng.choice([0.0, 0.0, 0.1, 0.4, 0.8, 1.5]),
                        "nseed": rng.getrandbits(32),
                        "form": rng.choice(["es_noise", "es", "arr", "list", "arr_i8", "arr_i16", "es_i16"]),
                        "vout": rng.choice([1.0, 0.2, 5.0]), "bias": rng.choice([0.0, 0.0, 0.5, -1.0]),
                        "tie": rng.choice([None, None, None, "blank", "flat", "equal2"])})
        elif k == "gv":
            sps = rng.choice([2, 3, 4, 5, 8, 16, 32, 64])
            ops.append({"op": "gv", "kw": {"sps": sps, "R": rng.choice([1e9, 10e9])}})
        elif k == "bad":
            ops.append({"op": "bad", "what": rng.choice(["hdd_M3", "hdd_M6", "hdd_M12", "hdd_M100", "sdd_M3", "sdd_M6",
                                                         "hdd_ragged", "sdd_ragged", "hdd_ragged2"]),
                        "M": rng.choice([4, 8, 16])})
        elif k == "reseed":
            ops.append({"op": "reseed", "s": rng.getrandbits(31)})
        elif k == "leak":
            ops.append({"op": "leak", "upto": rng.choice([40, 70, 140]), "every": rng.choice([1, 1, 3])})
        elif k == "d2b":
            M = rng.choice(Ms)
            ops.append({"op": "d2b", "v": rng.randrange(M), "k": M.bit_length() - 1})
    return {}, ops


def simplify_op(op):
    if op.get("op") == "frame":
        if op["faults"]:
            yield dict(op, faults=op["faults"][: len(op["faults"]) // 2])
            yield dict(op, faults=op["faults"][:1])
        kb = op["M"].bit_length() - 1
        if op["nbits"] > kb:
            yield dict(op, nbits=kb, faults=[f for f in op["faults"] if (f[1] if f[0] in ("erase", "extra", "stuck") else f[1] // op["M"]) == 0])
        if op["form"] != "list":
            yield dict(op, form="list")
        if op["hform"] != "list":
            yield dict(op, hform="list")
    if op.get("op") == "sdd" and op["nsym"] > 1:
        yield dict(op, nsym=1)


# ----------------------------------------------------------------------------
# helpers
# ----------------------------------------------------------------------------
def _container(bits, form, BS):
    if form == "str":
        return "".join(map(str, bits))
    if form == "str_sp":
        return " ".join(map(str, bits))
    if form == "str_comma":
        return ",".join(map(str, bits))
    if form == "str_mixed":
        return "".join(str(b) + (", " if k % 3 == 0 else " " if k % 3 == 1 else "") for k, b in enumerate(bits))
    if form == "list":
        return list(bits)
    if form == "tuple":
        return tuple(bits)
    if form == "arr":
        return np.array(bits, dtype=np.int64)
    if form == "arr_bool":
        return np.array(bits, dtype=bool)
    if form == "bs":
        return BS(np.array(bits, dtype=np.uint8))
    raise ValueError(form)


def ref_encode(bits, M):
    k = M.bit_length() - 1
    nsym = len(bits) // k
    out = [0] * (nsym * M)
    for s in range(nsym):
        v = 0
        for b in bits[s * k:(s + 1) * k]:
            v = (v << 1) | b
        out[s * M + v] = 1
    return out


def apply_faults(cw, faults, M):
    cw = list(cw)
    touched = set()
    n = len(cw)
    for f in faults:
        if f[0] == "flip" and f[1] < n:
            cw[f[1]] ^= 1
            touched.add(f[1] // M)
        elif f[0] == "erase" and f[1] * M < n:
            cw[f[1] * M:(f[1] + 1) * M] = [0] * M
            touched.add(f[1])
        elif f[0] == "stuck" and f[1] * M < n:
            cw[f[1] * M:(f[1] + 1) * M] = [1] * M
            touched.add(f[1])
        elif f[0] == "extra" and f[1] * M < n:
            for j in range(f[3]):
                cw[f[1] * M + (f[2] + j * 3) % M] = 1
            touched.add(f[1])
        elif f[0] == "burst":
            for p in range(f[1], min(n, f[1] + f[2])):
                cw[p] = 1
                touched.add(p // M)
    return cw, touched


def _check_valid_bs(o, BS, n, what):
    if not isinstance(o, BS):
        raise Violation("C12/hdd-valid", f"{what}: returned {type(o).__name__}", what)
    d = o.data
    if d.ndim != 1 or d.size != n or (d.size and not np.all((d == 0) | (d == 1))):
        raise Violation("C12/hdd-valid", f"{what}: output shape {d.shape} (expected {n} slots) or non-binary", what)
    return d.astype(int).tolist()


def check_hdd_output(rx, out, M, what, rngdesc=""):
    nsym = len(rx) // M
    for s in range(nsym):
        a = rx[s * M:(s + 1) * M]
        b = out[s * M:(s + 1) * M]
        if sum(b) != 1:
            raise Violation("C12/hdd-valid", f"{what}: symbol {s} of the output has {sum(b)} ON slots "
                                             f"(in {a} -> out {b}) {rngdesc}", "hdd/valid")
        if sum(a) == 1 and a != b:
            raise Violation("C12/hdd-keep", f"{what}: valid symbol {s} was changed {a} -> {b} {rngdesc}", "hdd/keep")
        if sum(a) > 1 and a[b.index(1)] != 1:
            raise Violation("C12/hdd-choice", f"{what}: symbol {s} had ON slots {[i for i, v in enumerate(a) if v]} "
                                              f"but slot {b.index(1)} was kept {rngdesc}", "hdd/choice")


# ----------------------------------------------------------------------------
# machine
# ----------------------------------------------------------------------------
class Link:
    def __init__(self, rec):
        import opticomlib.ppm as ppm
        from opticomlib.typing import binary_sequence, electrical_signal, gv
        from opticomlib.devices import DAC
        self.ppm, self.BS, self.ES, self.gv, self.DAC = ppm, binary_sequence, electrical_signal, gv, DAC
        self.rec = rec
        self.clock = seams.install_clock(0)
        self.kept = []          # (result object, expected content) of earlier decoder calls

    def _check_kept(self, what):
        for o, exp in self.kept:
            if o.data.tolist() != exp:
                raise Violation("C12/sdd", f"{what}: a result returned by an earlier call changed while the decoder was "
                                           f"used again (result shares a buffer with library state)", "result-unstable")

    def apply(self, op, step):
        self.rec.n_ops += 1
        with warnings.catch_warnings():
            warnings.simplefilter("ignore")
            out = getattr(self, "op_" + op["op"])(op)
        self.rec.log(step, op["op"], out)

    def op_gv(self, op):
        common.apply_gv(op["kw"])
        self.rec.fault("gv_reconf")
        return self.gv.sps

    def op_reseed(self, op):
        np.random.seed(op["s"])
        self.rec.fault("rng_reseed")
        return op["s"]

    def op_d2b(self, op):
        """A user converts a symbol value himself and then edits the returned word in place."""
        import opticomlib.utils as ut
        w = ut.dec2bin(op["v"], op["k"])
        exp = [(op["v"] >> (op["k"] - 1 - j)) & 1 for j in range(op["k"])]
        if np.asarray(w).tolist() != exp:
            raise Violation("C12/roundtrip", f"dec2bin({op['v']}, {op['k']}) = {np.asarray(w).tolist()}, expected {exp}",
                            "dec2bin")
        if isinstance(w, np.ndarray) and w.flags.writeable and w.size:
            w[:] = 1 - w
            self.rec.fault("scribble_result")
        return "ok"

    # ---- one frame over the faulty slot channel --------------------------------------------
    def op_frame(self, op):
        M, n = op["M"], op["nbits"]
        k = M.bit_length() - 1
        bits = np.random.RandomState(op["bseed"]).randint(0, 2, n).tolist()
        nsym = n // k
        if op["form"].startswith("str") and n == 0:
            op = dict(op, form="list")
        if op["form2"].startswith("str") and n == 0:
            op = dict(op, form2="list")
        what = f"frame/M{M}"
        arg = _container(bits, op["form"], self.BS)
        guard = arg.copy() if isinstance(arg, np.ndarray) else (arg.data.copy() if isinstance(arg, self.BS) else None)
        try:
            enc = self.ppm.PPM_ENCODER(arg, M)
        except Exception as e:
            raise Violation("C12/encode", f"{what}: PPM_ENCODER({op['form']} of {n} bits) raised {type(e).__name__}: {e}",
                            "encode/raise")
        cw = _check_valid_bs(enc, self.BS, nsym * M, what + "/encode")
        exp = ref_encode(bits, M)
        if cw != exp:
            s = next(i for i in range(nsym) if cw[i * M:(i + 1) * M] != exp[i * M:(i + 1) * M])
            raise Violation("C12/encode", f"{what}: symbol {s} bits {bits[s * k:(s + 1) * k]} encoded as "
                                          f"{cw[s * M:(s + 1) * M]}, expected ON at {exp[s * M:(s + 1) * M].index(1)}",
                            "encode/value")
        if guard is not None:
            now = arg if isinstance(arg, np.ndarray) else arg.data
            if not np.array_equal(now, guard):
                raise Violation("C12/encode", f"{what}: encoder modified its input", "encode/mutate")
        # container independence
        if op["form2"] != op["form"]:
            enc2 = self.ppm.PPM_ENCODER(_container(bits, op["form2"], self.BS), M)
            if enc2.data.tolist() != enc.data.tolist():
                raise Violation("C12/container", f"{what}: {op['form']} and {op['form2']} inputs encode differently",
                                "container")
        # fault-free round trip
        dec = self.ppm.PPM_DECODER(enc if op["hform"] == "bs" else _container(cw, op["hform"], self.BS) if nsym else enc, M)
        if not isinstance(dec, self.BS) or dec.data.astype(int).tolist() != bits[:nsym * k]:
            raise Violation("C12/roundtrip", f"{what}: decode(encode(b)) = {getattr(dec, 'data', dec)!s:.80} != "
                                             f"b[:{nsym * k}] = {bits[:nsym * k]!s:.80}", "roundtrip")
        if nsym == 0:
            self.rec.ok_ops += 1
            self.rec.sig(M, op["form"], "empty")
            return "empty"
        # channel
        rx, touched = apply_faults(cw, op["faults"], M)
        for f in op["faults"]:
            self.rec.fault("slot_" + f[0])
        damaged = [s for s in range(nsym) if sum(rx[s * M:(s + 1) * M]) != 1]
        options = [M if sum(rx[s * M:(s + 1) * M]) == 0 else sum(rx[s * M:(s + 1) * M]) for s in damaged]
        # the library visits zero-ON symbols first, then multi-ON ones
        order = [s for s in damaged if sum(rx[s * M:(s + 1) * M]) == 0] + \
                [s for s in damaged if sum(rx[s * M:(s + 1) * M]) > 1]
        mode = op["hdd"]
        outs = []

        def call_hdd():
            arg_ = _container(rx, op["hform"], self.BS)
            g = arg_.copy() if isinstance(arg_, np.ndarray) else (arg_.data.copy() if isinstance(arg_, self.BS) else None)
            try:
                o = self.ppm.HDD(arg_, M)
            except Exception as e:
                raise Violation("C12/hdd-valid", f"{what}: HDD raised {type(e).__name__}: {e} on {rx!s:.80}", "hdd/raise")
            if g is not None:
                now = arg_ if isinstance(arg_, np.ndarray) else arg_.data
                if not np.array_equal(now, g):
                    raise Violation("C12/hdd-keep", f"{what}: HDD modified its input", "hdd/mutate")
            return _check_valid_bs(o, self.BS, nsym * M, what + "/hdd")

        if mode == "real" or not damaged:
            np.random.seed(op["hseed"] % (2 ** 32))
            o1 = call_hdd()
            np.random.seed(op["hseed"] % (2 ** 32))
            o2 = call_hdd()
            if o1 != o2:
                raise Violation("C12/hdd-choice", f"{what}: HDD not reproducible under np.random.seed({op['hseed']})",
                                "hdd/seed-repeat")
            check_hdd_output(rx, o1, M, what, f"[seed {op['hseed']}]")
            self._check_kept(what)
            outs.append(o1)
            self.rec.probe("HDD real-seed twin")
        else:
            scripts = []
            if mode == "enum":
                opts = [M if sum(rx[s * M:(s + 1) * M]) == 0 else sum(rx[s * M:(s + 1) * M]) for s in order]
                total = 1
                for x in opts:
                    total *= x
                if len(opts) <= 4 and total <= 64:
                    scripts = [list(t) for t in itertools.product(*[range(x) for x in opts])]
                    self.rec.probe("HDD choices enumerated exhaustively", len(scripts))
                else:
                    r = random.Random(op["hseed"])
                    scripts = [[r.randrange(x) for x in opts] for _ in range(8)]
                    scripts.append([x - 1 for x in opts])
            for sc in (scripts or [None]):
                srng = ScriptedRNG(mode="script" if sc is not None else mode, answers=sc)
                with srng:
                    o = call_hdd()
                if not srng.choices and damaged:
                    self.rec.probe("seam_bypassed (HDD drew nothing from np.random.randint/choice)")
                if srng.tripped:
                    self.rec.probe("rng tripwire: " + ",".join(sorted(set(srng.tripped))))
                check_hdd_output(rx, o, M, what, f"[choices {srng.choices}]")
                # every multi-ON answer served must be honoured: the kept slot is the idx-th ON slot
                outs.append(o)
                self.rec.probe("HDD served choices", len(srng.choices))
        if damaged:
            self.rec.probe("HDD repaired damaged symbol", len(damaged))
            if any(sum(rx[s * M:(s + 1) * M]) > 1 for s in damaged):
                self.rec.probe("HDD repaired multi-ON symbol")
        # receiver
        for o in outs[:3]:
            d = self.ppm.PPM_DECODER(self.BS(np.array(o, dtype=np.uint8)), M)
            got = d.data.astype(int).tolist()
            if len(got) != nsym * k:
                raise Violation("C12/roundtrip", f"{what}: decoder returned {len(got)} bits for {nsym} valid symbols",
                                "roundtrip/len")
            for s in range(nsym):
                if s not in touched and got[s * k:(s + 1) * k] != bits[s * k:(s + 1) * k]:
                    raise Violation("C12/roundtrip", f"{what}: symbol {s} crossed the channel intact but decoded to "
                                                     f"{got[s * k:(s + 1) * k]} instead of {bits[s * k:(s + 1) * k]}",
                                    "roundtrip/intact")
        self.rec.ok_ops += 1
        self.rec.sig(M, op["form"], op["hform"], ",".join(sorted({f[0] for f in op["faults"]})) or "clean", mode,
                     "damaged" if damaged else "intact")
        return core.array_digest(np.array(outs[0]))[:10]

    # ---- waveform path ---------------------------------------------------------------------------
    def op_sdd(self, op):
        M, nsym = op["M"], op["nsym"]
        k = M.bit_length() - 1
        sps = int(self.gv.sps)
        bits = np.random.RandomState(op["bseed"]).randint(0, 2, nsym * k).tolist()
        cw = ref_encode(bits, M)
        what = f"sdd/M{M}/{op['shape']}/sps{sps}"
        kw = {"pulse_shape": op["shape"], "Vout": op["vout"], "bias": op["bias"]}
        if op["shape"] == "gaussian":
            kw["T"] = max(1, sps // 2) if sps >= 2 else 1
        x = self.DAC(self.BS(np.array(cw, dtype=np.uint8)), **kw)
        sig = np.asarray(x.signal, dtype=float)
        amp = op["amp"]
        noise = None
        if amp:
            noise = np.random.RandomState(op["nseed"]).uniform(-amp, amp, sig.size) * abs(op["vout"])
        tie = op.get("tie")
        if tie:
            # exact ties for the symbol maximum (blank symbol, flat record, two equal pulses): the output must still
            # be a valid codeword - which of the tied slots is raised is not asserted
            noise = None
            sig = sig.copy()
            w_ = sig.reshape(nsym, M, sps)
            if tie == "blank":
                w_[op["bseed"] % nsym] = op["bias"]
            elif tie == "flat":
                w_[...] = op["bias"] + op["vout"]
            else:
                s_ = op["bseed"] % nsym
                on = cw[s_ * M:(s_ + 1) * M].index(1)
                w_[s_, (on + 1) % M] = w_[s_, on]
            sig = w_.reshape(-1)
            amp = 0.0
        total = sig if noise is None else sig + noise
        form = op["form"]
        if form in ("arr_i8", "arr_i16", "es_i16") and not tie:
            # ADC codes in a narrow integer type: the slot integral must not wrap
            dt_ = np.int8 if form == "arr_i8" else np.int16
            full = 100 if dt_ is np.int8 else 30000
            span = float(np.max(np.abs(total))) or 1.0
            total = np.round(total / span * full).astype(dt_)
            noise = None
            amp = 1.0      # only the independent argmax is asserted for quantised records
            arg = self.ES(total.copy()) if form == "es_i16" else total.copy()
            form = "_int"
        if form == "_int":
            pass
        elif form == "es_noise" and noise is not None:
            arg = self.ES(sig.copy(), noise.copy())
        elif form in ("es", "es_noise"):
            arg = self.ES(total.copy())
        elif form == "arr":
            arg = total.copy()
        else:
            arg = total.tolist()
        g = [b.copy() for _, b in seams.obj_buffers(arg)] if isinstance(arg, self.ES) else \
            ([arg.copy()] if isinstance(arg, np.ndarray) else [])
        try:
            out = self.ppm.SDD(arg, M)
        except Exception as e:
            raise Violation("C12/sdd", f"{what}: SDD raised {type(e).__name__}: {e}", "sdd/raise")
        got = _check_valid_bs(out, self.BS, nsym * M, what)
        self._check_kept(what)
        self.kept = (self.kept + [(out, list(got))])[-3:]
        now = [b for _, b in seams.obj_buffers(arg)] if isinstance(arg, self.ES) else \
            ([arg] if isinstance(arg, np.ndarray) else [])
        for a_, b_ in zip(g, now):
            if not np.array_equal(a_, b_):
                raise Violation("C12/sdd", f"{what}: SDD modified its input", "sdd/mutate")
        tot_f = np.asarray(total, dtype=float)
        slot_sum = tot_f.reshape(-1, sps).sum(axis=1).reshape(nsym, M)
        slot_en = (tot_f ** 2).reshape(-1, sps).sum(axis=1).reshape(nsym, M)
        checked = 0
        for s in range(nsym):
            row = got[s * M:(s + 1) * M]
            if sum(row) != 1:
                raise Violation("C12/sdd", f"{what}: symbol {s} has {sum(row)} ON slots", "sdd/valid")
            a1, a2 = int(np.argmax(slot_sum[s])), int(np.argmax(slot_en[s]))
            srt = np.sort(slot_sum[s])
            scale = max(abs(srt[-1]), abs(srt[0]), 1e-12)
            if a1 != a2 or (M > 1 and srt[-1] - srt[-2] <= 1e-9 * scale):
                self.rec.probe("SDD symbol skipped: ambiguous argmax")
                continue
            checked += 1
            if row.index(1) != a1:
                raise Violation("C12/sdd", f"{what}: symbol {s}: slot {row.index(1)} turned ON but slot {a1} has the "
                                           f"largest integrated energy (sums {np.round(slot_sum[s], 3).tolist()!s:.120})",
                                "sdd/argmax")
        if tie:
            self.rec.probe("SDD frame with an exact tie")
        if not amp and not tie and got != cw:
            raise Violation("C12/sdd", f"{what}: SDD is not the identity on a noiseless waveform: {cw} -> {got}",
                            "sdd/identity")
        if amp and amp < 0.45 and op["shape"] == "nrz" and got != cw:
            raise Violation("C12/sdd", f"{what}: perturbation below the decision margin changed the decision",
                            "sdd/margin")
        self.rec.ok_ops += 1
        self.rec.sig("sdd", M, op["shape"], sps, form, "noisy" if amp else "clean")
        self.rec.probe("SDD symbols compared with independent argmax", checked)
        return core.array_digest(np.array(got))[:10]

    # ---- invalid arguments ------------------------------------------------------------------------------
    def op_leak(self, op):
        """Rejected calls pile up on the library's timer stack; the codec must keep working and keep giving the same
        words at every depth."""
        bits = [1, 0, 1, 1, 0, 0, 0, 1, 1, 1, 0, 1]

        def reject():
            try:
                self.ppm.HDD([1, 0, 0], 3)
            except ValueError:
                pass

        def valid():
            enc = self.ppm.PPM_ENCODER(bits, 8)
            np.random.seed(7)
            hd = self.ppm.HDD(enc, 8)
            dec = self.ppm.PPM_DECODER(hd, 8)
            if dec.data.tolist() != bits:
                raise Violation("C12/roundtrip", f"leak: decode(HDD(encode(b))) != b at timer-stack depth "
                                                 f"{seams.timer_stack_depth()}", "roundtrip/leak")
            return core.array_digest(enc.data) + core.array_digest(dec.data)
        return common.leak_sweep(reject, valid, op["upto"], "C12/roundtrip", self.rec, op.get("every", 1), "codec call")

    def op_bad(self, op):
        what = op["what"]
        M = op["M"]
        sps = int(self.gv.sps)
        try:
            if what.startswith("hdd_M") or what.startswith("sdd_M"):
                Mb = int(what[5:])
                if what.startswith("hdd"):
                    self.ppm.HDD([1] + [0] * (Mb - 1), Mb)
                else:
                    self.ppm.SDD(np.ones(Mb * sps), Mb)
            elif what == "hdd_ragged":
                self.ppm.HDD([1] + [0] * (M - 2), M)
            elif what == "hdd_ragged2":
                self.ppm.HDD(self.BS([1] + [0] * M), M)
            elif what == "sdd_ragged":
                self.ppm.SDD(np.ones(M * sps - 1), M)
        except ValueError:
            self.rec.fault("failed_call")
            self.rec.sig("bad", what, "ValueError")
            return "ValueError"
        except Exception as e:
            raise Violation("C12/args", f"{what} (M={M}, sps={sps}) raised {type(e).__name__} instead of ValueError: {e}",
                            f"args/{what}")
        raise Violation("C12/args", f"{what} (M={M}, sps={sps}) was accepted", f"args/{what}")


# ----------------------------------------------------------------------------
# exhaustive baselines (enumeration, labelled as such)
# ----------------------------------------------------------------------------
def _exh_codec(spec, rec):
    import opticomlib.ppm as ppm
    from opticomlib.typing import binary_sequence as BS
    M = spec["M"]
    k = M.bit_length() - 1
    n = 0
    for L in range(0, 13):
        for w in range(2 ** L):
            bits = [(w >> (L - 1 - j)) & 1 for j in range(L)]
            form = ("list", "str", "arr", "bs", "tuple")[w % 5] if L else "list"
            enc = ppm.PPM_ENCODER(_container(bits, form, BS), M)
            if enc.data.astype(int).tolist() != ref_encode(bits, M):
                raise Violation("C12/encode", f"exhaustive: M={M} bits {bits} -> {enc.data}", "exh/encode")
            dec = ppm.PPM_DECODER(enc, M)
            if dec.data.astype(int).tolist() != bits[:L // k * k]:
                raise Violation("C12/roundtrip", f"exhaustive: M={M} bits {bits} -> decode {dec.data}", "exh/roundtrip")
            n += 1
    rec.n_ops += n
    rec.ok_ops += n
    rec.probe(f"exhaustive codec words M={M}", n)
    rec.log("exh_codec", M, n)
    rec.sig("exh_codec", M)


def _exh_hdd(spec, rec):
    import opticomlib.ppm as ppm
    from opticomlib.typing import binary_sequence as BS
    M, S = spec["M"], spec["S"]
    n = 0
    parts, part = spec.get("parts", 1), spec.get("part", 0)
    span = 2 ** S // parts
    for w in range(part * span, (part + 1) * span):
        rx = [(w >> (S - 1 - j)) & 1 for j in range(S)]
        for mode in ("first", "last"):
            srng = ScriptedRNG(mode=mode)
            with srng:
                o = ppm.HDD(rx if w % 2 else np.array(rx, dtype=np.uint8), M)
            out = _check_valid_bs(o, BS, S, f"exh_hdd/M{M}/S{S}")
            check_hdd_output(rx, out, M, f"exh_hdd/M{M}/S{S}/{mode}", f"[choices {srng.choices}]")
        n += 1
    rec.n_ops += 2 * n
    rec.ok_ops += 2 * n
    rec.probe(f"exhaustive HDD slot patterns M={M} S={S}", n)
    rec.log("exh_hdd", M, S, part, n)
    rec.sig("exh_hdd", M, S, part)


def execute(spec, rec, known):
    kind = spec.get("kind", "run")
    if kind == "run":
        m = Link(rec)
        core.run_ops(m, spec["ops"], rec, "C12/args")
        rec.sim_s = m.clock.covered
        return
    seams.install_clock(0)
    with warnings.catch_warnings():
        warnings.simplefilter("ignore")
        {"exh_codec": _exh_codec, "exh_hdd": _exh_hdd}[kind](spec, rec)


def extra_coverage(tier, specs, results):
    codec = sorted(s["M"] for s, r in zip(specs, results) if s.get("kind") == "exh_codec" and not r.get("viol"))
    hdd = sorted({(s["M"], s["S"]) for s, r in zip(specs, results) if s.get("kind") == "exh_hdd" and not r.get("viol")})
    return {"exhaustive_baseline": {"codec_orders_all_words_le_12_bits": codec, "hdd_all_slot_patterns_(M,slots)": hdd,
                                    "exhaustive": True,
                                    "note": "fault-free enumeration; labelled baseline, not simulation"}}
