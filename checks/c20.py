"""C20 - PPG driver emits only in-range commands; memory round-trips; SYNC aligns.

System under simulation: the real PPG3204 driver <-> FakeVISA transport <-> reference
instrument (strict SCPI parser + state, sim/fakevisa.py).  Faults: VISA timeouts before /
after the instrument applied a command, rejected commands, instrument power-cycles
mid-transfer, slow replies, warnings-filter toggles, wrongly typed calls.  SYNC runs
over a simulated repeat / delay / noise channel.
"""
import math
import random
import warnings

import numpy as np

from sim import core, seams, common, fakevisa
from sim.core import Violation
from sim.fakevisa import LIMITS

PROPERTY = "C20"
RULE = ("seeded driver histories of set_*/get_*/__call__/config/reset/set_data/get_data with requested values "
        "log-uniform over +-3 decades around each limit (plus limits +-1 ulp), scalar and per-channel lists, channel "
        "selections None / ints -1..9 / lists with duplicates and >4 entries, data lengths 1..10^4 biased to 1024 "
        "multiples +-1 at start addresses 1 / mid / end of memory, interleaved with transport faults; SYNC links over "
        "repeat/delay/noise channels; distinct = (instrument settings hash x command family x clamp side x fault kind) "
        "signatures in runs with >=3 successful driver calls")
WALL = {"quick": 300, "thorough": 900, "replay": 600}
BLOCK = {"quick": 100000, "thorough": 16384}
SELFTEST = {"quick": 24, "thorough": 200}
COMPONENTS_REAL = ["opticomlib.lab.PPG3204 (constructor, _query, _check_channels, all set_*/get_*, __call__, config, "
                   "__del__)", "opticomlib.lab.SYNC", "opticomlib.utils.str2array/nearest",
                   "opticomlib.typing.electrical_signal/binary_sequence/gv"]
COMPONENTS_STUB = ["pyvisa.ResourceManager / session (FakeVISA)", "the PPG3204 instrument (reference SCPI model)",
                   "the optical/electrical channel in front of SYNC (repeat, delay, AWGN)", "opticomlib.utils.tm (SimClock)"]
ASSUMPTIONS = [
    "instrument replies: '\\n' to writes, value+'\\n' to queries, '#k<n><bits>\\n' to DATA? (the definite-length block "
    "form the driver's own parser presupposes) - modelling assumption",
    "limits asserted are exactly those quoted in the statement; bit-shift values and in-range value fidelity are not asserted",
    "start addresses are generated inside the memory; NaN requests are not generated",
    "under transport faults only command safety and exception class (VisaIOError / EOFError propagate) are required",
    "get_data results are flattened per channel before comparison (the statement asks for the same bits, not a shape)",
    "SYNC with d=0 must return 0 (d < one pattern length includes 0)",
]
N_RUNS = {"quick": 5000, "thorough": 60000}
NONTRIVIAL_OPS = 3
MEM = LIMITS["memory"]


def tasks(tier, master):
    return [{"kind": "run", "i": i, "seed": core.derive_seed(master, PROPERTY, tier, i), "tier": tier}
            for i in range(N_RUNS[tier])]


# ----------------------------------------------------------------------------
# generation
# ----------------------------------------------------------------------------
def _around(rng, lo, hi, signed=False):
    """Value log-uniform over +-3 decades around a limit, or a limit +- 1 ulp, or in range."""
    c = rng.random()
    if c < 0.15:
        lim = rng.choice([lo, hi])
        return rng.choice([lim, math.nextafter(lim, math.inf), math.nextafter(lim, -math.inf)])
    if c < 0.45:
        return rng.uniform(lo, hi)
    lim = rng.choice([lo, hi])
    mag = abs(lim) if lim else 1.0
    v = mag * 10 ** rng.uniform(-3, 3)
    if signed and rng.random() < 0.5:
        v = -v
    if lim < 0 and not signed:
        v = -v
    return v


def _chs(rng):
    c = rng.random()
    if c < 0.3:
        return None
    if c < 0.55:
        return rng.randint(1, 4)
    if c < 0.65:
        return rng.randint(-1, 9)
    if c < 0.9:
        return [rng.randint(1, 4) for _ in range(rng.randint(1, 4))]
    return [rng.randint(-1, 9) for _ in range(rng.randint(1, 7))]


def _nch(chs):
    if chs is None:
        return 4
    if isinstance(chs, int):
        return 1
    return min(len(chs), 4)


def _vals(rng, chs, gen, as_list_p=0.5):
    if rng.random() < as_list_p:
        n = _nch(chs)
        c = rng.random()
        if c < 0.15 and n > 1:
            n = rng.randint(1, n - 1)         # fewer values than channels
        elif c < 0.25:
            n = n + rng.randint(1, 2)         # more values than channels
        out = [gen() for _ in range(n)]
        return tuple(out) if rng.random() < 0.15 else out
    return gen()


def _data_len(rng):
    c = rng.random()
    if c < 0.45:
        base = rng.choice([1024, 2048, 3072, 4096, 8192])
        return max(1, base + rng.choice([-1, 0, 1]))
    if c < 0.6:
        return rng.choice([1, 2, 3, 9, 10, 99, 100, 999, 1000, 1023, 1025])
    return rng.randint(1, 10000)


def _start(rng, n):
    c = rng.random()
    if c < 0.4:
        return 1
    if c < 0.6:
        return MEM - n + 1
    if c < 0.7:
        return rng.choice([1023, 1024, 1025, 2048])
    return rng.randint(1, MEM - n + 1)


def generate(seed, tier):
    rng = random.Random(seed)
    fault_rate = rng.choice([0.0, 0.0, 0.1, 0.25])
    fkinds = rng.sample(["visa_timeout_before", "visa_timeout_after", "visa_invalid", "inst_reset", "visa_slow"],
                        rng.randint(1, 5))
    ops = [{"op": "connect", "mode": "dry" if rng.random() < 0.12 else "visa"}]
    w = {"set_freq": 3, "set_patt_len": 3, "set_output_voltage": 4, "set_offset": 4, "set_skew": 3, "set_prbs_order": 2,
         "set_bits_shift": 1, "set_mode": 1, "outputs": 1, "set_data": 5, "get_data": 4, "get": 2, "call": 2, "reset": 1,
         "filters": 1, "badtype": 1, "sync": rng.choice([0, 2, 4]), "sync_short": 1, "rewrite": 2}
    kinds = [k for k, c in w.items() for _ in range(c)]
    for _ in range(rng.randint(8, 30)):
        if rng.random() < fault_rate:
            ops.append({"op": "fault", "kind": rng.choice(fkinds), "at": rng.randint(0, 12)})
        k = rng.choice(kinds)
        chs = _chs(rng)
        if k == "set_freq":
            ops.append({"op": k, "v": rng.choice([_around(rng, *LIMITS["freq"]), float("inf"), 0, -1e9, 10e9])
                        if rng.random() < 0.9 else int(_around(rng, *LIMITS["freq"]))})
        elif k == "set_patt_len":
            ops.append({"op": k, "chs": chs, "v": _vals(rng, chs, lambda: int(rng.choice(
                [rng.randint(2, MEM), rng.randint(-5, 5), MEM + rng.randint(0, 5), MEM * 10, 1000, 2, MEM])))})
        elif k == "set_output_voltage":
            ops.append({"op": k, "chs": chs, "v": _vals(rng, chs, lambda: rng.choice(
                [_around(rng, *LIMITS["amplitude"]), 0.0, 0, 1, 2, 5.0, 0.1, 1.5, -1.0]))})
        elif k == "set_offset":
            ops.append({"op": k, "chs": chs, "v": _vals(rng, chs, lambda: rng.choice(
                [_around(rng, *LIMITS["offset"], signed=True), 0.0, 0, -2, 3, 5.0, -3.5, 1.5]))})
        elif k == "set_skew":
            ops.append({"op": k, "chs": chs, "v": _vals(rng, chs, lambda: rng.choice(
                [_around(rng, *LIMITS["skew"], signed=True), 0.0, 0, 1e-12, -1e-12, 1e-9, -26e-12]))})
        elif k == "set_prbs_order":
            ops.append({"op": k, "chs": chs, "v": _vals(rng, chs, lambda: int(rng.choice(
                [7, 9, 11, 15, 23, 31, 20, 8, 0, -3, 16, 27, 100, 1000, 12])))})
        elif k == "set_bits_shift":
            ops.append({"op": k, "chs": chs, "v": _vals(rng, chs, lambda: rng.randint(-2 ** 20, 2 ** 20))})
        elif k == "set_mode":
            ops.append({"op": k, "chs": chs, "v": rng.choice(["data", "prbs", "DATA", "PRBS", "Prbs"])})
        elif k == "outputs":
            ops.append({"op": k, "chs": chs, "on": rng.random() < 0.5})
        elif k == "set_data":
            n = _data_len(rng)
            form = rng.choice(["str", "str_sp", "str_comma", "list", "arr", "arr_bool", "2d", "2d_list"])
            if form.startswith("str") and not (chs is None or isinstance(chs, int)):
                form = "list"
            start = _start(rng, n)
            overflow = rng.random() < 0.06 and form in ("str", "str_sp", "str_comma", "list", "arr")
            if overflow:
                start = MEM - n + 1 + rng.randint(1, min(n - 1, 40)) if n > 1 else MEM
            ops.append({"op": k, "chs": chs, "n": n, "dseed": rng.getrandbits(32), "start": start, "form": form,
                        "readback": rng.random() < 0.6})
            if ops[-2].get("op") == "fault" if len(ops) >= 2 else False:
                # natural reaction to a failed transfer: the user simply issues the same write again
                ops.append(dict(ops[-1], readback=True))
        elif k == "get_data":
            n = _data_len(rng)
            ops.append({"op": k, "chs": chs, "n": n, "start": _start(rng, n),
                        "clamp": rng.choice([None, None, None, None, "start0", "size0", "sizebig"])})
        elif k == "get":
            ops.append({"op": k, "what": rng.choice(["freq", "patt_len", "mode", "prbs_order", "bits_shift", "skew",
                                                     "output_voltage", "offset"]), "chs": chs})
        elif k == "call":
            kw = {}
            if rng.random() < 0.5:
                kw["freq"] = _around(rng, *LIMITS["freq"])
            if rng.random() < 0.4:
                kw["patt_len"] = rng.choice([1000, 1, MEM + 1, 4096])
            if rng.random() < 0.5:
                kw["Vout"] = rng.choice([1.5, 0.1, 5.0, _around(rng, *LIMITS["amplitude"])])
            if rng.random() < 0.5:
                kw["offset"] = rng.choice([0.5, -3.0, 4.0, _around(rng, *LIMITS["offset"], signed=True)])
            if rng.random() < 0.3:
                kw["bsh"] = rng.randint(-100, 100)
            if rng.random() < 0.4:
                kw["skew"] = rng.choice([0.5e-12, 30e-12, -30e-12])
            mode = rng.choice([None, "PRBS", "DATA"])
            if mode:
                kw["mode"] = mode
                if mode == "PRBS":
                    kw["order"] = rng.choice([7, 8, 31, 50])
                else:
                    kw["data_n"] = rng.choice([12, 1024, 1025, 2500])
                    kw["data_seed"] = rng.getrandbits(32)
            ops.append({"op": "call", "chs": chs, "kw": kw, "via": rng.choice(["call", "config"])})
        elif k == "reset":
            ops.append({"op": "reset"})
        elif k == "filters":
            ops.append({"op": "filters", "mode": rng.choice(["default", "ignore", "always"])})
        elif k == "badtype":
            ops.append({"op": "badtype", "what": rng.choice(["patt_len_str", "skew_str", "data_int", "getdata_str",
                                                             "mode_bad", "chs_str", "amp_str", "offset_none"])})
        elif k == "sync":
            nsl = rng.choice([32, 40, 64, 127, 128])
            sps = rng.choice([2, 4, 8, 16])
            if rng.random() < 0.06:
                nsl, sps = rng.choice([(2047, 16), (2047, 8), (8191, 4), (1023, 32)])      # long patterns
            prev_sync = [o for o in ops if o.get("op") == "sync"]
            reuse = rng.random() < 0.5
            if reuse and prev_sync and rng.random() < 0.7:
                nsl, sps = prev_sync[-1]["nslots"], prev_sync[-1]["sps"]     # the same pattern buffer refilled
            L = nsl * sps
            ops.append({"op": "sync", "nslots": nsl, "sps": sps, "pseed": rng.getrandbits(32), "reuse": reuse,
                        "gvstyle": rng.choice(["sps", "sps", "fs", "fsdt", "spsdt"]),
                        "rxdt": rng.choice(["f8", "f8", "f8", "i2", "i1"]),
                        "d": rng.choice([0, 1, sps - 1, sps, L - 1, L // 2, rng.randrange(L), rng.randrange(L),
                                         L - 1 - rng.randrange(max(1, L // 8))]),
                        "sigma": rng.choice([0.0, 0.01, 0.05, 0.1]), "nseed": rng.getrandbits(32),
                        "prefix": rng.choice(["periodic", "silence"]), "form": rng.choice(["es", "arr", "both"]),
                        "tx": rng.choice(["bs", "arr"]), "amp": rng.choice([1.0, 0.05, 2.0]),
                        "off": 0.0, "reps": rng.choice([3, 3, 4]), "short": rng.random() < 0.3,
                        "extra": rng.random()})
        elif k == "rewrite":
            olds = [o for o in ops if o.get("op") == "set_data"]
            if olds:
                ops.append(dict(rng.choice(olds), readback=True))      # the same pattern written again later
        elif k == "sync_short":
            ops.append({"op": "sync_short", "nslots": rng.choice([32, 64]), "sps": rng.choice([2, 8]),
                        "cut": rng.choice([1, 2, 100]), "form": rng.choice(["es", "arr"])})
        if ops and isinstance(ops[-1].get("chs"), list) and k != "rewrite":
            ops[-1]["chf"] = rng.choice(["list", "list", "tuple", "arr", "arr", "arr_i32"])
    if rng.random() < 0.3:
        # two instruments, two driver objects, used in turn (a fault is armed on the station of the call it precedes)
        dev = 0
        for o in reversed(ops):
            if o["op"] != "fault":
                dev = int(rng.random() < 0.45)
            o["dev"] = dev
        ops[0]["dev"] = 0
    return {}, ops


def simplify_op(op):
    if op.get("chf") not in (None, "list"):
        yield dict(op, chf="list")
    if op.get("dev"):
        yield dict(op, dev=0)
    if op.get("op") in ("set_data", "get_data") and op["n"] > 1:
        for n in (1, 1024, 1025, op["n"] // 2):
            if n < op["n"]:
                yield dict(op, n=n, start=min(op["start"], MEM - n + 1))
        if op["start"] != 1:
            yield dict(op, start=1)
    if "chs" in op and op["chs"] is not None and op["chs"] != 1:
        yield dict(op, chs=1, v=(op["v"][0] if isinstance(op.get("v"), list) and op["v"] else op.get("v"))) \
            if "v" in op else dict(op, chs=1)
    if isinstance(op.get("v"), list) and len(op["v"]) > 1:
        yield dict(op, v=op["v"][0])
    if op.get("op") == "sync":
        if op["sigma"]:
            yield dict(op, sigma=0.0)
        if op["nslots"] > 32:
            yield dict(op, nslots=32, d=op["d"] % (32 * op["sps"]))


# ----------------------------------------------------------------------------
# machine
# ----------------------------------------------------------------------------
def _C(op):
    """The channel selection object handed to the driver: lists may travel as tuple / integer ndarray."""
    chs, f = op.get("chs"), op.get("chf", "list")
    if not isinstance(chs, list) or f == "list":
        return chs
    if f == "tuple":
        return tuple(chs)
    return np.array(chs, dtype=np.int32 if f == "arr_i32" else np.int64)


def _clip_channels(chs):
    if chs is None:
        return [1, 2, 3, 4], False
    raw = [chs] if isinstance(chs, int) else list(chs)
    bad = any(c < 1 or c > 4 for c in raw) or len(raw) > 4
    return [min(4, max(1, c)) for c in raw][:4], bad


class Bench:
    def __init__(self, rec):
        import opticomlib.lab as lab
        from opticomlib.typing import binary_sequence, electrical_signal, gv
        self.lab, self.BS, self.ES, self.gv = lab, binary_sequence, electrical_signal, gv
        self.rec = rec
        self.clock = seams.install_clock(0)
        self.tx_bufs = {}
        # two instruments on the bus, each with its own driver object ("station"); most runs use only the first
        self.addrs = ["SIM::1::INSTR", "SIM::2::INSTR"]
        insts = {a: fakevisa.SimInstrument() for a in self.addrs}
        sess = fakevisa.install_multi(insts, self.clock, rec)
        self.stations = [{"ppg": None, "inst": insts[a], "sessions": sess[a], "dry": False, "pending_fault": None,
                          "wire_seen": 0, "faults_since_roundtrip": False, "addr": a} for a in self.addrs]
        self.cur = 0
        for k_, v_ in self.stations[0].items():
            setattr(self, k_, v_)
        self.ok_calls = 0

    def _use(self, dev, quiet=False):
        """Switch the bench to the other station (driver object + instrument + bookkeeping)."""
        if dev == self.cur:
            return
        for k_ in self.stations[self.cur]:
            self.stations[self.cur][k_] = getattr(self, k_)
        self.cur = dev
        for k_, v_ in self.stations[dev].items():
            setattr(self, k_, v_)
        if not quiet:
            self.rec.fault("station_switch")

    # -- plumbing ------------------------------------------------------------------------
    def apply(self, op, step):
        self.rec.n_ops += 1
        self._use(int(op.get("dev", 0)))
        if self.ppg is None and op["op"] not in ("connect", "sync", "sync_short", "filters", "fault"):
            self.op_connect({"mode": "visa"})
        out = getattr(self, "op_" + op["op"])(op)
        self.rec.log(step, op["op"], out)

    def op_connect(self, op):
        self.dry = op["mode"] == "dry"
        with seams.stdout_tap():
            self.ppg = self.lab.PPG3204(None if self.dry else self.addr)
        self._check_wire("connect")
        return op["mode"]

    def op_fault(self, op):
        if not self.dry:
            self.pending_fault = (op["kind"], op["at"])
        return op["kind"]

    def op_filters(self, op):
        warnings.simplefilter(op["mode"])
        self.rec.fault("filters_toggle")
        return op["mode"]

    def _check_wire(self, what, stdout=None):
        """Safety: everything that reached the instrument (or stdout in dry-run) is in spec."""
        new = self.inst.wire[self.wire_seen:]
        self.wire_seen = len(self.inst.wire)
        if stdout is not None:
            for line in stdout.splitlines():
                if line.strip():
                    P = fakevisa.parse(line)
                    new.append((line[:200], P, False))
        for cmd, P, applied in new:
            if not P.ok:
                fam = P.family or "unknown"
                raise Violation("C20/cmd-spec", f"{what}: command {cmd[:120]!r} is out of spec: {P.reason}",
                                f"cmd-spec/{fam}/{P.reason.split(' ')[0]}")
        return new

    def _drive(self, what, fn, allow=()):
        """Run one driver call; returns (result, exception, warnings, new wire entries, fault fired)."""
        sess = self.sessions[-1] if (self.sessions and not self.dry) else None
        plan = None
        if self.pending_fault and sess is not None:
            plan = {self.pending_fault[1]: self.pending_fault[0]}
        self.pending_fault = None
        if sess is not None:
            sess.begin_call(plan)
        res = exc = None
        with seams.warning_tap() as w, seams.stdout_tap() as out:
            try:
                res = fn()
            except Exception as e:  # outcome, classified below
                exc = e
        fired = list(sess.fired) if sess is not None else []
        for k in fired:
            self.rec.fault(k)
            self.faults_since_roundtrip = True
        new = self._check_wire(what, out.getvalue() if self.dry else None)
        if exc is not None:
            if fired:
                ok_types = (fakevisa.VisaIOError, EOFError)
                if not isinstance(exc, ok_types):
                    # a reset or slow reply must not make the driver fail; a timeout/invalid propagates as itself
                    raise Violation("C20/fault-exc", f"{what}: under transport fault {fired} the driver raised "
                                                     f"{type(exc).__name__}: {exc}", f"fault-exc/{fired[0]}")
            elif not isinstance(exc, allow) and not core.from_library(exc):
                raise exc
        return res, exc, [x for x in w], new, fired

    def _sig(self, fam, side, fired):
        self.rec.sig(core.derive_seed(repr(self.inst.settings_signature())) & 0xFFF, fam, side, ",".join(fired) or "-")

    # -- scalar setters -------------------------------------------------------------------------
    def _setter(self, name, fam, op, lo, hi, tol, call, per_channel=True, integer=False):
        v = op["v"]
        chs = op.get("chs") if per_channel else None
        sel, bad_ch = _clip_channels(chs) if per_channel else ([None], False)
        vals = list(v) if isinstance(v, (list, tuple)) else [v] * len(sel)
        vals = vals[:len(sel)]             # only values that pair with a channel are requests
        oor = [x < lo or x > hi for x in vals]
        what = f"{name}({v!r}, CHs={chs!r})" if per_channel else f"{name}({v!r})"
        res, exc, warns, new, fired = self._drive(what, call)
        side = "in" if not any(oor) else "oor"
        if fired:
            self._sig(fam, side, fired)
            if exc is None:
                self.ok_calls += 1
                self.rec.ok_ops += 1
            return f"{side}:{type(exc).__name__ if exc else 'ok'}:{','.join(fired)}"
        if any(oor) or bad_ch:
            if exc is not None:
                raise Violation("C20/clamp-raise", f"{what}: out-of-range request raised {type(exc).__name__}: {exc} "
                                                   f"instead of being clamped with a warning", f"clamp-raise/{name}")
            if not warns:
                raise Violation("C20/clamp-nowarn", f"{what}: out-of-range request "
                                                    f"({'channels' if bad_ch and not any(oor) else 'value'}) produced "
                                                    f"no warning; wire: {[c for c, _, _ in new][:4]}", f"clamp-nowarn/{name}")
        if exc is not None:
            self.rec.probe(f"in-range request raised ({name})")
            return f"in:raised:{type(exc).__name__}"
        # value received equals the nearest limit to printed precision
        got = [(P.ch, P.value) for _, P, _ in new if P.family == fam]
        if any(oor):
            exp = [min(hi, max(lo, x)) for x in vals]
            for k, (ch, x) in enumerate(zip(sel, exp)):
                if not oor[k] or k >= len(got):
                    continue
                rx = got[k][1]
                if abs(rx - x) > tol(x):
                    raise Violation("C20/clamp-value", f"{what}: channel {ch} received {rx!r}, nearest limit is {x!r}",
                                    f"clamp-value/{name}")
            self.rec.probe(f"clamped {name}")
        if per_channel and len(got) != min(len(sel), len(vals)):
            self.rec.probe(f"{name}: emitted {len(got)} commands for {len(sel)} channels")
        self.ok_calls += 1
        self.rec.ok_ops += 1
        self._sig(fam, side + ("+ch" if bad_ch else ""), fired)
        return f"{side}:ok:{len(got)}"

    def op_set_freq(self, op):
        return self._setter("set_freq", "freq", op, *LIMITS["freq"], lambda x: 1.1e-5 * abs(x),
                            lambda: self.ppg.set_freq(op["v"]), per_channel=False)

    def op_set_patt_len(self, op):
        return self._setter("set_patt_len", "leng", op, *LIMITS["patt_len"], lambda x: 0,
                            lambda: self.ppg.set_patt_len(op["v"], _C(op)))

    def op_set_output_voltage(self, op):
        return self._setter("set_output_voltage", "volt", op, *LIMITS["amplitude"], lambda x: 0.0500001,
                            lambda: self.ppg.set_output_voltage(op["v"], _C(op)))

    def op_set_offset(self, op):
        return self._setter("set_offset", "offs", op, *LIMITS["offset"], lambda x: 0.0500001,
                            lambda: self.ppg.set_offset(op["v"], _C(op)))

    def op_set_skew(self, op):
        return self._setter("set_skew", "skew", op, *LIMITS["skew"], lambda x: 1e-9 * abs(x) + 1e-24,
                            lambda: self.ppg.set_skew(op["v"], _C(op)))

    def op_set_prbs_order(self, op):
        v, chs = op["v"], op["chs"]
        sel, bad_ch = _clip_channels(chs)
        vals = (list(v) if isinstance(v, (list, tuple)) else [v] * len(sel))[:len(sel)]
        orders = LIMITS["prbs_orders"]
        oor = [x not in orders for x in vals]
        what = f"set_prbs_order({v!r}, CHs={chs!r})"
        res, exc, warns, new, fired = self._drive(what, lambda: self.ppg.set_prbs_order(v, _C(op)))
        if fired:
            self._sig("plen", "oor" if any(oor) else "in", fired)
            return "fault"
        if any(oor[:len(sel)]) or bad_ch:
            if exc is not None:
                raise Violation("C20/clamp-raise", f"{what}: unsupported order raised {type(exc).__name__}: {exc}",
                                "clamp-raise/set_prbs_order")
            if not warns:
                raise Violation("C20/clamp-nowarn", f"{what}: unsupported order/channel produced no warning",
                                "clamp-nowarn/set_prbs_order")
        if exc is not None:
            self.rec.probe("in-range request raised (set_prbs_order)")
            return "in:raised"
        got = [P.value for _, P, _ in new if P.family == "plen"]
        for k, x in enumerate(vals[:len(got)]):
            if oor[k]:
                dmin = min(abs(o - x) for o in orders)
                if abs(got[k] - x) != dmin:
                    raise Violation("C20/clamp-value", f"{what}: order {x} was sent as {got[k]}, not a nearest "
                                                       f"supported order", "clamp-value/set_prbs_order")
        self.ok_calls += 1
        self.rec.ok_ops += 1
        self._sig("plen", "oor" if any(oor) else "in", fired)
        return f"ok:{len(got)}"

    def _plain(self, name, fam, fn, op, allow=()):
        res, exc, warns, new, fired = self._drive(name, fn, allow)
        if exc is None:
            self.ok_calls += 1
            self.rec.ok_ops += 1
        elif not fired:
            self.rec.probe(f"{name} raised {type(exc).__name__}")
        self._sig(fam, "-", fired)
        return f"{'ok' if exc is None else type(exc).__name__}:{len(new)}"

    def op_set_bits_shift(self, op):
        return self._plain("set_bits_shift", "bsh", lambda: self.ppg.set_bits_shift(op["v"], _C(op)), op)

    def op_set_mode(self, op):
        return self._plain("set_mode", "type", lambda: self.ppg.set_mode(op["v"], _C(op)), op)

    def op_outputs(self, op):
        f = self.ppg.enable_outputs if op["on"] else self.ppg.disable_outputs
        return self._plain("outputs", "outp", lambda: f(_C(op)), op)

    def op_reset(self, op):
        return self._plain("reset", "rst", lambda: self.ppg.reset(), op)

    def op_get(self, op):
        if self.dry:
            return "skip-dry"
        w = op["what"]
        f = getattr(self.ppg, "get_" + w)
        return self._plain("get_" + w, w + "?", (lambda: f()) if w == "freq" else (lambda: f(_C(op))), op)

    def op_badtype(self, op):
        w = op["what"]
        calls = {
            "patt_len_str": lambda: self.ppg.set_patt_len("12"),
            "skew_str": lambda: self.ppg.set_skew("a"),
            "data_int": lambda: self.ppg.set_data(5),
            "getdata_str": lambda: self.ppg.get_data("1"),
            "mode_bad": lambda: self.ppg.set_mode("square"),
            "chs_str": lambda: self.ppg.set_skew(1e-12, "1"),
            "amp_str": lambda: self.ppg.set_output_voltage("1.0"),
            "offset_none": lambda: self.ppg.set_offset(None),
        }
        res, exc, warns, new, fired = self._drive("badtype/" + w, calls[w], allow=(Exception,))
        self.rec.fault("failed_call")
        return type(exc).__name__ if exc else "accepted"

    def op_call(self, op):
        kw = dict(op["kw"])
        if "data_n" in kw:
            n = kw.pop("data_n")
            kw["data"] = np.random.RandomState(kw.pop("data_seed")).randint(0, 2, n).astype(np.uint8)
        kw["CHs"] = _C(op)
        f = self.ppg if op["via"] == "call" else self.ppg.config
        res, exc, warns, new, fired = self._drive(f"ppg({ {k: (v if k != 'data' else '...') for k, v in kw.items()} })",
                                                  lambda: f(**kw))
        if exc is None:
            self.ok_calls += 1
            self.rec.ok_ops += 1
        elif not fired:
            self.rec.probe(f"__call__ raised {type(exc).__name__}")
        self._sig("call", ",".join(sorted(op["kw"])), fired)
        return f"{'ok' if exc is None else type(exc).__name__}:{len(new)}"

    # -- pattern memory ------------------------------------------------------------------------------------
    def _bits(self, op, nch):
        rs = np.random.RandomState(op["dseed"])
        form = op["form"]
        n = op["n"]
        if form in ("2d", "2d_list"):
            d = rs.randint(0, 2, (nch, n)).astype(np.uint8)
            return (d if form == "2d" else d.tolist()), d
        d = rs.randint(0, 2, n).astype(np.uint8)
        if form == "str":
            return "".join(map(str, d.tolist())), np.tile(d, (nch, 1))
        if form == "str_sp":
            return " ".join(map(str, d.tolist())), np.tile(d, (nch, 1))
        if form == "str_comma":
            return ",".join(map(str, d.tolist())), np.tile(d, (nch, 1))
        if form == "list":
            return d.tolist(), np.tile(d, (nch, 1))
        if form == "arr_bool":
            return d.astype(bool), np.tile(d, (nch, 1))
        return d.copy(), np.tile(d, (nch, 1))

    def op_set_data(self, op):
        chs, n, start = op["chs"], op["n"], op["start"]
        sel, bad_ch = _clip_channels(chs)
        arg, per_ch = self._bits(op, len(sel))
        guard = arg.copy() if isinstance(arg, np.ndarray) else None
        what = f"set_data({n} bits as {op['form']}, start={start}, CHs={chs!r})"
        res, exc, warns, new, fired = self._drive(what, lambda: self.ppg.set_data(arg, start, _C(op)))
        if guard is not None and not np.array_equal(guard, arg):
            raise Violation("C20/blocks", f"{what}: the caller's data array was modified", "blocks/mutate")
        if fired:
            self._sig("data", "w", fired)
            if exc is None:
                self.ok_calls += 1
                self.rec.ok_ops += 1
            return f"{'ok' if exc is None else type(exc).__name__}:{','.join(fired)}"
        fits = min(n, MEM - start + 1)
        if exc is not None:
            raise Violation("C20/blocks", f"{what}: raised {type(exc).__name__}: {exc}", "blocks/raise")
        if fits < n and not warns:
            raise Violation("C20/clamp-nowarn", f"{what}: data longer than the memory was truncated without a warning",
                            "clamp-nowarn/set_data")
        # history check over the wire log: blocks tile [start, start+fits) per channel, in order
        blocks = [P for _, P, _ in new if P.family == "data"]
        by_ch = {}
        for P in blocks:
            by_ch.setdefault(P.ch, []).append(P)
        # with duplicate channels the same range is written again; check each consecutive chain
        pos = 0
        for k, ch in enumerate(sel):
            want = per_ch[k][:fits]
            addr = start
            got_bits = []
            while addr < start + fits:
                if pos >= len(blocks):
                    raise Violation("C20/blocks", f"{what}: transfer for channel {ch} stops at address {addr}, "
                                                  f"{start + fits - addr} bits missing", "blocks/short")
                P = blocks[pos]
                pos += 1
                if P.ch != ch or P.p != addr:
                    raise Violation("C20/blocks", f"{what}: expected a block for channel {ch} at address {addr}, got "
                                                  f"channel {P.ch} address {P.p} ({P.n} bits)", "blocks/chain")
                got_bits.append(P.bits)
                addr += P.n
            if addr != start + fits:
                raise Violation("C20/blocks", f"{what}: blocks for channel {ch} cover up to {addr - 1}, expected "
                                              f"{start + fits - 1}", "blocks/overrun")
            sent = "".join(got_bits)
            if sent != "".join(map(str, want.tolist())):
                j = next(i for i in range(fits) if sent[i] != str(int(want[i])))
                raise Violation("C20/blocks", f"{what}: bit {j} sent to channel {ch} differs from the data", "blocks/bits")
        if pos != len(blocks):
            raise Violation("C20/blocks", f"{what}: {len(blocks) - pos} extra data blocks emitted", "blocks/extra")
        if n > 1024:
            self.rec.probe("set_data crossed a 1024 boundary")
        if n % 1024 == 0:
            self.rec.probe("set_data length is a multiple of 1024")
        self.ok_calls += 1
        self.rec.ok_ops += 1
        self._sig("data", "w" + ("+trunc" if fits < n else ""), fired)
        out = f"ok:{len(blocks)}"
        if op.get("readback") and not self.dry:
            out += "|" + self._get_data(fits, start, chs, what + " -> get_data", expect=per_ch[:, :fits], sel=sel)
        return out

    def _get_data(self, n, start, chs, what, expect=None, sel=None, clamp=None, cobj=None):
        sel = sel or _clip_channels(chs)[0]
        carg = chs if cobj is None else cobj
        res, exc, warns, new, fired = self._drive(what, lambda: self.ppg.get_data(n, start, carg))
        if fired:
            self._sig("data?", "r", fired)
            return f"{'ok' if exc is None else type(exc).__name__}:{','.join(fired)}"
        n_eff, start_eff = n, start
        if clamp:
            start_eff = min(MEM, max(1, start))
            n_eff = min(MEM - start_eff + 1, max(1, n))
            if exc is None and not warns:
                raise Violation("C20/clamp-nowarn", f"{what}: out-of-range size/start produced no warning",
                                "clamp-nowarn/get_data")
        if exc is not None:
            raise Violation("C20/roundtrip", f"{what}: raised {type(exc).__name__}: {exc}", "roundtrip/raise")
        try:
            arr = np.asarray(res)
            rows = [np.asarray(arr[k]).reshape(-1).astype(int) for k in range(len(sel))]
        except Exception as e:
            raise Violation("C20/roundtrip", f"{what}: result cannot be read per channel: {type(e).__name__}: {e}; "
                                             f"type {type(res).__name__} shape {getattr(res, 'shape', None)}",
                            "roundtrip/shape")
        for k, ch in enumerate(sel):
            mem = self.inst.ch[ch].memory()
            want = np.frombuffer(bytes(mem[start_eff - 1:start_eff - 1 + n_eff]), dtype=np.uint8).astype(int)
            if expect is not None and not np.array_equal(want, expect[k].astype(int)) and len(set(sel)) == len(sel):
                raise Violation("C20/roundtrip", f"{what}: instrument memory of channel {ch} != data written",
                                "roundtrip/memory")
            if rows[k].shape != want.shape or not np.array_equal(rows[k], want):
                raise Violation("C20/roundtrip", f"{what}: channel {ch} returned {rows[k].size} bits "
                                                 f"{rows[k][:12].tolist()}..., memory holds {want.size} bits "
                                                 f"{want[:12].tolist()}...", "roundtrip/bits")
        self.ok_calls += 1
        self.rec.ok_ops += 1
        self.faults_since_roundtrip = False
        if n > 1024:
            self.rec.probe("get_data crossed a 1024 boundary")
        self._sig("data?", "r" + ("+clamp" if clamp else ""), fired)
        return f"ok:{n_eff}"

    def op_get_data(self, op):
        if self.dry:
            return "skip-dry"
        n, start, clamp = op["n"], op["start"], op.get("clamp")
        if clamp == "start0":
            start = 0
        elif clamp == "size0":
            n = 0
        elif clamp == "sizebig":
            n = MEM - start + 1 + 7
            if n > 20000:           # keep the read small: move the window to the end of the memory
                start = MEM - 3000
                n = 3001 + 7
        return self._get_data(n, start, op["chs"], f"get_data({n}, start={start}, CHs={op['chs']!r})", clamp=clamp,
                              cobj=_C(op))

    # -- SYNC ----------------------------------------------------------------------------------------------------
    def _pattern(self, seed, nsl):
        rs = np.random.RandomState(seed)
        b = rs.randint(0, 2, nsl).astype(np.uint8)
        b[0], b[1] = 1, 0
        return b

    def op_sync(self, op):
        nsl, sps, d = op["nslots"], op["sps"], op["d"]
        bits = self._pattern(op["pseed"], nsl)
        L = nsl * sps
        d = d % L
        wave = np.kron(bits, np.ones(sps)) * op["amp"] + op["off"]
        rx = np.tile(wave, op["reps"])
        if op["prefix"] == "periodic":
            rx = np.roll(rx, d)
        else:
            rx = np.concatenate([np.full(d, op["off"]), rx])[: rx.size]
        if op.get("short"):
            # a record slightly shorter than two patterns (2l-1-k samples, k <= 2*sps): nearly all l candidate lags are
            # still available.  Much shorter records are not generated: "the pattern's waveform repeated" is then
            # hardly met, and SYNC's own 3-sigma plausibility test on a handful of lags rejects them (seen in a soak).
            kcut = 1 + int(op.get("extra", 0.5) * 2 * sps)
            if d <= L - 1 - kcut:
                rx = rx[:2 * L - 1 - kcut]
        if op["sigma"]:
            rx = rx + np.random.RandomState(op["nseed"]).normal(0, op["sigma"] * op["amp"], rx.size)
        if op.get("rxdt") in ("i2", "i1"):
            # raw ADC / oscilloscope codes: the same record as a narrow integer array
            sc_ = 100 if op["rxdt"] == "i2" else 20
            rx = np.round((rx - op["off"]) / op["amp"] * sc_).astype(np.int16 if op["rxdt"] == "i2" else np.int8)
        tx = self.BS(bits) if op["tx"] == "bs" else bits.copy()
        if op.get("reuse"):
            # the caller keeps one pattern container per length and refills it in place between alignments
            key = (nsl, op["tx"])
            if key in self.tx_bufs:
                tx = self.tx_bufs[key]
                (tx.data if op["tx"] == "bs" else tx)[:] = bits
                self.rec.fault("container_refilled")
            else:
                self.tx_bufs[key] = tx
        common.apply_gv(common.gv_kw(sps, 1e9, op.get("gvstyle", "sps")))
        what = f"SYNC(nslots={nsl}, sps={sps}, d={d}, sigma={op['sigma']}, {op['prefix']}, {op['form']})"
        results = []
        for form in (["es", "arr"] if op["form"] == "both" else [op["form"]]):
            arg = self.ES(rx.copy()) if form == "es" else rx.copy()
            g = rx.copy()
            try:
                with warnings.catch_warnings():
                    warnings.simplefilter("ignore")
                    out = self.lab.SYNC(arg, tx) if form == "es" else self.lab.SYNC(arg, tx, sps)
            except Exception as e:
                raise Violation("C20/sync-index", f"{what}: raised {type(e).__name__}: {e}", "sync/raise")
            sig, idx = out
            if int(idx) != d:
                # The delay is only identifiable if the record's best match really is at d.  For the edge delays
                # (0 and l-1) the neighbouring alignment belongs to the *next* repetition and carries independent
                # noise, so with 10 % noise on a short pattern it wins now and then (measured: 0.2-1 % of such
                # cases).  Independent direct correlation over the lags 0..l-1: accept its maximiser as well.
                tmpl = np.kron(bits.astype(float), np.ones(sps))
                c_ = np.correlate(np.asarray(rx[:2 * L - 1], dtype=float), tmpl, mode="valid")
                best = int(np.argmax(c_))
                if op["sigma"] and best != d and int(idx) == best:
                    self.rec.probe("SYNC: realised noise moved the correlation maximum away from d")
                    results.append((int(idx), "ambiguous"))
                    continue
                raise Violation("C20/sync-index", f"{what}: returned index {int(idx)}, delay is {d} (independent "
                                                  f"correlation maximum at {best})", "sync/index")
            s = np.asarray(sig.signal if isinstance(sig, self.ES) else sig)
            m = min(len(s), L, rx.size - d)
            if not isinstance(sig, self.ES) or m == 0 or not np.array_equal(s[:m].real, rx[d:d + m]):
                raise Violation("C20/sync-start", f"{what}: returned signal does not start at sample {d} of the "
                                                  f"received record", "sync/start")
            cur = arg.signal if form == "es" else arg
            if not np.array_equal(np.asarray(cur).real, g):
                raise Violation("C20/sync-start", f"{what}: the received record was modified", "sync/mutate")
            results.append((int(idx), core.array_digest(s)))
        if len(results) == 2 and results[0] != results[1]:
            raise Violation("C20/sync-index", f"{what}: ndarray and electrical_signal inputs disagree", "sync/forms")
        self.rec.ok_ops += 1
        self.rec.fault("delay")
        if op["sigma"]:
            self.rec.fault("awgn")
        self.rec.sig("sync", sps, "d0" if d == 0 else "dlast" if d == L - 1 else "d", op["prefix"], bool(op["sigma"]),
                     "short" if op.get("short") else "long")
        if op.get("short"):
            self.rec.probe("SYNC on a record shorter than two patterns")
        return f"ok:{d}"

    def op_sync_short(self, op):
        nsl, sps = op["nslots"], op["sps"]
        bits = self._pattern(1, nsl)
        wave = np.kron(bits, np.ones(sps))
        rx = wave[: wave.size - op["cut"]]
        common.apply_gv({"sps": sps, "R": 1e9})
        try:
            with warnings.catch_warnings():
                warnings.simplefilter("ignore")
                if op["form"] == "es":
                    self.lab.SYNC(self.ES(rx), self.BS(bits))
                else:
                    self.lab.SYNC(rx, bits, sps)
        except BufferError:
            self.rec.sig("sync_short", op["form"])
            return "BufferError"
        except Exception as e:
            raise Violation("C20/sync-short", f"record {op['cut']} samples shorter than the pattern raised "
                                              f"{type(e).__name__}: {e} instead of the documented BufferError",
                            "sync/short-exc")
        raise Violation("C20/sync-short", f"record {op['cut']} samples shorter than the pattern was accepted",
                        "sync/short-accepted")

    # -- bounded liveness once faults stopped ---------------------------------------------------------------
    def finish(self):
        for dev in range(len(self.stations)):
            self._use(dev, quiet=True)
            self._finish_station()

    def _finish_station(self):
        if self.ppg is None or self.dry:
            return
        self.pending_fault = None
        if self.faults_since_roundtrip:
            op = {"chs": 2, "n": 1500, "start": 5, "form": "arr", "dseed": 12345, "readback": True}
            self.op_set_data(op)
            self.rec.probe("post-fault round trip completed")
        ppg = self.ppg
        self.ppg = None
        ppg.__del__()
        if self.sessions and not self.sessions[-1].closed:
            raise Violation("C20/cmd-spec", "driver __del__ did not close the VISA session", "cmd-spec/close")


def execute(spec, rec, known):
    b = Bench(rec)
    core.run_ops(b, spec["ops"], rec, "C20/raise")
    rec.sim_s = b.clock.covered
