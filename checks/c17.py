"""C17 - eye estimator recovers the levels of a clean two-level signal in any unit.

GET_EYE draws its KMeans initialisations from numpy's global RandomState.  The simulator
owns that seam (layer A): every waveform is estimated under several controlled seeds, and
for each seed the affinely rescaled twin alpha*y+beta is estimated under the *same* seed, so
the statement's bands are checked for every seed explored and the equivariance clause
compares two executions that saw identical draws.
"""
import random
import warnings

import numpy as np
import scipy.signal as sg

from sim import core, seams, common
from sim.core import Violation

PROPERTY = "C17"
RULE = ("seeded cases: two-level NRZ from random/PRBS-like bits (>=64 slots, both symbols), levels (a,b) with b-a "
        "log-uniform in [1e-3,100] V and varied offsets, band-limited by the library LPF at 0.7-1.0 R, AWGN sigma in "
        "[0.5%,5%] of b-a, sps in {8,16,32} with sps_resamp=128, grid set by a gv pre-history; each case runs K "
        "clustering seeds and for each seed a twin on alpha*y+beta (alpha in [1e-3,1e3]) under the same seed; distinct "
        "= (sps, amplitude decade, sigma class, alpha decade, seed index, input form) signatures")
WALL = {"quick": 400, "thorough": 900, "replay": 400}
BLOCK = {"quick": 100000, "thorough": 1024}
SELFTEST = {"quick": 16, "thorough": 64}
COMPONENTS_REAL = ["opticomlib.devices.GET_EYE", "opticomlib.devices.LPF (band-limiting of the test waveform)",
                   "opticomlib.utils.shortest_int", "sklearn.cluster.KMeans", "scipy.stats.gaussian_kde",
                   "scipy.signal.resample", "opticomlib.typing.electrical_signal/eye/gv"]
COMPONENTS_STUB = ["numpy global RandomState seeded by the simulator before every call (layer A)",
                   "opticomlib.utils.tm (SimClock)"]
ASSUMPTIONS = [
    "bands quoted verbatim from the statement; sigma is the standard deviation of the added noise (fraction of b-a); "
    "the LOWER sigma bound uses min(sigma, spread of the injected noise realised on the estimator's own window "
    "samples): at the 64-slot minimum only ~15 independent noise samples per level enter the estimate, and a "
    "thorough run met a realisation (1 in ~40 000) whose local spread was just below sigma/2",
    "'midway within one resampled step' = |t_opt - (t_left+t_right)/2| <= 1/sps_resamp (+1e-9)",
    "equivariance tolerance 1e-6 relative to alpha*(b-a) plus 4e-13*|beta| (float64 resolution of the pedestal); beta up "
    "to 1e6 eye heights",
    "each op is one waveform case; the number of GET_EYE calls per op is 2*K",
]
N_RUNS = {"quick": 1600, "thorough": 16000}
NONTRIVIAL_OPS = 1


def tasks(tier, master):
    specs = [{"kind": "run", "i": i, "seed": core.derive_seed(master, PROPERTY, tier, i), "tier": tier}
             for i in range(N_RUNS[tier])]
    # records longer than GET_EYE's default nslots=4096 (truncation path): a few in every tier
    for j, nsl in enumerate([4300, 5000, 6001] if tier == "quick" else [4300, 5000, 6001, 4097, 8191, 4500, 7000, 5555]):
        specs.append({"kind": "trunc", "i": j, "nslots": nsl, "tier": tier,
                      "seed": core.derive_seed(master, PROPERTY, tier + "/trunc", j)})
    return specs


def generate(seed, tier):
    rng = random.Random(seed)
    ops = []
    n_cases = rng.choice([1, 1, 2, 3]) if tier == "quick" else rng.choice([1, 2, 3])
    for _ in range(n_cases):
        if rng.random() < 0.4:
            ops.append({"op": "reseed", "s": rng.getrandbits(31)})
        sps = rng.choice([8, 16, 32])
        swing = 10 ** rng.uniform(-3, 2)
        if rng.random() < 0.25:
            swing = rng.choice([1e-3, 100.0, 1.0, 50.0])
        a = rng.choice([0.0, 0.0, -swing / 2, rng.uniform(-2, 2) * swing, 0.2 * swing])
        alpha = 10 ** rng.uniform(-3, 3)
        corner = False
        if rng.random() < 0.25:
            alpha = rng.choice([1e-3, 1e3, 1.0])
        if rng.random() < 0.2:          # corner of the domain: millivolt signals expressed in much smaller units
            swing = 10 ** rng.uniform(-3, -2)
            a = rng.choice([0.0, -swing / 2])
            alpha = 10 ** rng.uniform(-3, -2.5)
            corner = True
        nsl = rng.choice([64, 96, 128, 65, 127, 255])
        if rng.random() < 0.05:
            nsl = rng.choice([256, 512, 1000, 511])
        if tier == "thorough" and rng.random() < 0.004:
            nsl = 4300                                    # longer than GET_EYE's default nslots=4096: truncation path
        pattern = rng.choice(["random", "random", "prbs", "blocks", "sparse", "dense"])
        inv = False
        if rng.random() < 0.08:
            # pulse-position-like frames (one mark per 8/16/32 slots, or the complement): strongly unbalanced but
            # still random patterns; long enough that each level keeps >= 12 slots at each slot parity
            pattern = rng.choice(["ppm8", "ppm16", "ppm32", "ppm32"])
            inv = rng.random() < 0.4
            nsl = rng.choice([512, 768, 1024])
        ops.append({"op": "case", "sps": sps, "R": rng.choice([1e9, 10e9, 2.5e9]), "nslots": nsl,
                    "pattern": pattern, "inv": inv, "gvstyle": rng.choice(["sps", "sps", "sps", "fs", "fsdt", "spsdt"]),
                    "early": rng.random() < 0.25,
                    "bseed": rng.getrandbits(31),
                    "a": a, "swing": swing, "bwf": rng.uniform(0.7, 1.0),
                    "sigma": rng.uniform(0.005, 0.012) if (corner and rng.random() < 0.5) else rng.uniform(0.005, 0.05),
                    "nseed": rng.getrandbits(31), "form": rng.choice(["es_noise", "es", "arr", "es_noise", "es_c", "arr_c"]),
                    "seeds": [rng.getrandbits(31) for _ in range(2 if tier == "quick" else 3)],
                    "alpha": alpha, "beta": rng.choice([0.0, rng.uniform(-10, 10) * alpha * swing,
                                                         rng.choice([-1, 1]) * 10 ** rng.uniform(2, 6) * alpha * swing])})
    return {}, ops


def simplify_op(op):
    if op.get("op") == "case":
        if len(op["seeds"]) > 1:
            yield dict(op, seeds=op["seeds"][:1])
        if op["nslots"] > 64:
            yield dict(op, nslots=64)
        if op["beta"] != 0.0:
            yield dict(op, beta=0.0)
        if op["form"] != "es":
            yield dict(op, form="es")


PPM_NEED = (12, 12)     # absolute counts per slot parity for the pulse-position patterns


def _bits(op):
    rs = np.random.RandomState(op["bseed"])
    n = op["nslots"]
    if op["pattern"] == "random":
        b = rs.randint(0, 2, n)
    elif op["pattern"] in ("sparse", "dense"):      # unbalanced mark density (30 % / 70 %), still random
        b = (rs.rand(n) < (0.3 if op["pattern"] == "sparse" else 0.7)).astype(int)
    elif op["pattern"] in ("ppm8", "ppm16", "ppm32"):
        # pulse-position frames: one mark per M slots at a random position (strongly unbalanced, still random)
        M_ = int(op["pattern"][3:])
        b = np.zeros(n, dtype=int)
        pos = rs.randint(0, M_, n // M_ + 1)
        idx = np.arange(n // M_ + 1) * M_ + pos
        b[idx[idx < n]] = 1
        if op.get("inv"):
            b = 1 - b
    elif op["pattern"] == "prbs":
        st = (op["bseed"] % 127) or 1
        b = np.zeros(n, dtype=int)
        for k in range(n):
            b[k] = st & 1
            new = ((st >> 6) ^ (st >> 5)) & 1
            st = ((st << 1) | new) & 127
    else:
        b = np.repeat(rs.randint(0, 2, n // 2 + 1), rs.randint(1, 4, n // 2 + 1))[:n]
        if b.size < n:
            b = np.concatenate([b, rs.randint(0, 2, n - b.size)])
    b[0], b[1], b[2], b[3] = 0, 1, 1, 0
    # the eye folds pairs of slots: a pattern is in the statement's domain ("random and PRBS patterns") only if it
    # has transitions at even and at odd slot boundaries - a fair random pattern has ~n/4 of each; a run-length
    # pattern can by accident have all its transitions at one parity (seen once in a soak: 10 transitions, all odd),
    # and then only one of the two eye crossings exists at all
    k = 0
    need_tr = max(4, n // 8)
    need_lv = max(6, n // 10)
    if op["pattern"].startswith("ppm"):
        need_tr, need_lv = PPM_NEED
    while k <= 600:
        tr = np.where(np.diff(b) != 0)[0] + 1
        par = np.bincount(tr % 2, minlength=2)
        # both levels must also be present often enough at even and at odd slot positions: the statistics of one
        # level are taken from the slots of one parity only (a thorough run met 2 marks among the 32 analysed slots)
        cnt = [int(np.sum(b[p::2] == v)) for p in (0, 1) for v in (0, 1)]
        if par.min() >= need_tr and min(cnt) >= need_lv:
            break
        if min(cnt) < need_lv:
            j = int(np.argmin(cnt))
            p_, v_ = j // 2, j % 2
            cand = [i for i in range(4 + ((p_ - 4) % 2), n, 2) if b[i] != v_]
            if cand:
                b[cand[int(rs.randint(0, len(cand)))]] = v_
        else:
            pos = 4 + int(rs.randint(0, n - 6))
            b[pos] ^= 1                   # adds transitions at pos and pos+1 (one of each parity) or removes them
        k += 1
    return b


class Bench:
    def __init__(self, rec):
        from opticomlib.devices import GET_EYE, LPF
        from opticomlib.typing import electrical_signal, gv, eye
        self.GET_EYE, self.LPF, self.E, self.gv, self.eye = GET_EYE, LPF, electrical_signal, gv, eye
        self.rec = rec
        self.clock = seams.install_clock(0)

    def apply(self, op, step):
        self.rec.n_ops += 1
        with warnings.catch_warnings():
            warnings.simplefilter("ignore")
            out = getattr(self, "op_" + op["op"])(op)
        self.rec.log(step, op["op"], out)

    def op_reseed(self, op):
        np.random.seed(op["s"])
        self.rec.fault("rng_reseed")
        return op["s"]

    def _container(self, clean, noise, form):
        if form == "es_noise":
            return self.E(clean.copy(), noise.copy())
        if form == "es_c":
            # complex dtype whose imaginary part is pure round-off (what an FFT-based block leaves behind)
            eps = 1e-16 * np.abs(clean) * np.cos(np.arange(clean.size))
            return self.E(clean + 1j * eps, noise.astype(complex))
        if form == "arr_c":
            return (clean + noise).astype(complex)
        if form == "es":
            return self.E(clean + noise)
        return (clean + noise).copy()

    def _estimate_obj(self, arg, seed):
        np.random.seed(seed)
        with seams.stdout_tap():
            return self.GET_EYE(arg, sps_resamp=128)

    def _estimate(self, clean, noise, form, seed):
        return self._estimate_obj(self._container(clean, noise, form), seed)

    def op_case(self, op):
        sps, a, swing = op["sps"], op["a"], op["swing"]
        b = a + swing
        common.apply_gv(common.gv_kw(sps, op["R"], op.get("gvstyle", "sps")))
        self.rec.fault("gv_reconf")
        bits = _bits(op)
        unit = np.kron(bits, np.ones(sps)).astype(float)
        unit = np.asarray(self.LPF(self.E(unit), op["bwf"] * op["R"]).signal, dtype=float)
        clean = a + swing * unit
        sig_abs = op["sigma"] * swing
        noise = np.random.RandomState(op["nseed"]).normal(0, sig_abs, clean.size)
        alpha, beta = op["alpha"], op["beta"]
        what = (f"GET_EYE(levels=({a:.4g},{b:.4g}), sigma={op['sigma'] * 100:.2f}%, sps={sps}, nslots={op['nslots']}, "
                f"{op['form']})")
        fields = ("mu0", "mu1", "s0", "s1", "threshold", "t_left", "t_right", "t_opt", "i")
        digs = []
        if op.get("early"):
            # the container was created while another grid was in force (records collected first, grid configured
            # for each of them afterwards): the estimate depends on the grid in force when GET_EYE is called
            other = [s_ for s_ in (8, 16, 32) if s_ != sps][op["bseed"] % 2]
            common.apply_gv({"sps": other, "R": op["R"]})
            record = self._container(clean, noise, op["form"])
            common.apply_gv(common.gv_kw(sps, op["R"], op.get("gvstyle", "sps")))
            self.rec.fault("container_built_early")
        else:
            record = self._container(clean, noise, op["form"])      # the same object is analysed under every seed
        v_first = None
        for k, seed in enumerate(op["seeds"]):
            try:
                e = self._estimate_obj(record, seed)
            except Exception as ex:
                raise Violation("C17/finite", f"{what} seed {seed}: raised {type(ex).__name__}: {ex}", "raise")
            v = {f: getattr(e, f, None) for f in fields}
            w = f"{what} seed {seed}"
            for f in fields:
                x = v[f]
                if x is None or not np.isfinite(float(x)):
                    raise Violation("C17/finite", f"{w}: {f} = {x!r} is not a finite estimate (all: {v})",
                                    f"finite/{f}/{self._ampclass(swing)}")
            if abs(v["mu0"] - a) > 0.08 * swing or abs(v["mu1"] - b) > 0.08 * swing:
                raise Violation("C17/level", f"{w}: mu0={v['mu0']:.6g} mu1={v['mu1']:.6g}, must be within 8% of b-a of "
                                             f"({a:.6g}, {b:.6g})", f"level/{self._ampclass(swing)}")
            # the lower bound is taken against the noise actually realised on the samples the estimate is built
            # from (the estimator's own central-window mask applied to the identically pre-processed noise-only
            # record): with 64 slots only ~15 independent noise samples per level fall into the window, and a
            # realisation whose local spread is below sigma/2 is reported truthfully by the estimator
            ns_eff = min(op["nslots"] - (op["nslots"] % 2), 4096)
            rn = sg.resample(np.roll(noise[: ns_eff * sps], (-sps) // 2 + 1), ns_eff * 128)
            for f, maskname in (("s0", "y_bot"), ("s1", "y_top")):
                m = ~np.isnan(np.asarray(getattr(e, maskname)))
                real = float(np.std(rn[m])) if m.sum() > 1 and m.size == rn.size else sig_abs
                lo = min(sig_abs, real) / 2
                if not (lo <= v[f] <= 2 * sig_abs + 0.03 * swing):
                    raise Violation("C17/sigma", f"{w}: {f}={v[f]:.4g} outside [sigma/2, 2 sigma + 3%(b-a)] = "
                                                 f"[{lo:.4g}, {2 * sig_abs + 0.03 * swing:.4g}] (sigma={sig_abs:.4g}, "
                                                 f"realised on the {int(m.sum())} window samples: {real:.4g})",
                                    f"sigma/{self._ampclass(swing)}")
            if not (v["mu0"] < v["threshold"] < v["mu1"]):
                raise Violation("C17/threshold", f"{w}: threshold {v['threshold']:.6g} not strictly between mu0="
                                                 f"{v['mu0']:.6g} and mu1={v['mu1']:.6g}", f"threshold/{self._ampclass(swing)}")
            dist = v["t_right"] - v["t_left"]
            if abs(dist - 1) > 0.1:
                raise Violation("C17/timing", f"{w}: eye crossings t_left={v['t_left']:.4f}, t_right={v['t_right']:.4f} "
                                              f"are {dist:.4f} slots apart, must be within 10% of 1",
                                f"timing/dist/{self._ampclass(swing)}")
            if abs(v["t_opt"] - (v["t_left"] + v["t_right"]) / 2) > 1 / 128 + 1e-9:
                raise Violation("C17/timing", f"{w}: t_opt={v['t_opt']:.5f} is not midway between the crossings "
                                              f"({(v['t_left'] + v['t_right']) / 2:.5f}) within one resampled step",
                                f"timing/opt/{self._ampclass(swing)}")
            if v_first is None:
                v_first = dict(v)
            iv = v["i"]
            if int(iv) != iv or not (0 <= iv < sps):
                raise Violation("C17/index", f"{w}: sampling index i={iv!r} is not an integer in [0, {sps})", "index")
            # the caller owns the returned eye object: writing into its arrays must not influence later estimates
            for name_, val_ in list(e.__dict__.items()):
                if isinstance(val_, np.ndarray) and val_.flags.writeable and val_.size:
                    val_[...] = 12345.0
            # ---- twin on alpha*y+beta under the same clustering seed -----------------------------
            try:
                e2 = self._estimate(alpha * clean + beta, alpha * noise, op["form"], seed)
            except Exception as ex:
                raise Violation("C17/equivariance", f"{w}: the rescaled twin (alpha={alpha:.4g}, beta={beta:.4g}) raised "
                                                    f"{type(ex).__name__}: {ex}", "equiv/raise")
            v2 = {f: getattr(e2, f, None) for f in fields}
            tol = 1e-6 * alpha * swing + 4e-13 * abs(beta)      # float64 resolution of a large pedestal
            bad = []
            for f in ("mu0", "mu1", "threshold"):
                if v2[f] is None or not np.isfinite(float(v2[f])) or abs(v2[f] - (alpha * v[f] + beta)) > tol:
                    bad.append(f"{f}: {v2[f]!r} vs alpha*{v[f]!r}+beta = {alpha * v[f] + beta!r}")
            for f in ("s0", "s1"):
                if v2[f] is None or not np.isfinite(float(v2[f])) or abs(v2[f] - alpha * v[f]) > tol:
                    bad.append(f"{f}: {v2[f]!r} vs alpha*{v[f]!r} = {alpha * v[f]!r}")
            for f in ("t_left", "t_right", "t_opt", "i"):
                if v2[f] is None or not np.isfinite(float(v2[f])) or abs(float(v2[f]) - float(v[f])) > 1e-9:
                    bad.append(f"{f}: {v2[f]!r} vs {v[f]!r}")
            if bad:
                raise Violation("C17/equivariance", f"{w}: estimate is not equivariant under y -> {alpha:.6g}*y + "
                                                    f"{beta:.6g} with the same clustering seed: " + "; ".join(bad[:4]),
                                f"equiv/{bad[0].split(':')[0]}/{self._ampclass(alpha * swing)}")
            digs.append(tuple(round(float(v[f]) / (swing if f in ('mu0', 'mu1', 's0', 's1', 'threshold') else 1), 9)
                              for f in fields))
            self.rec.sig(sps, self._ampclass(swing), "lo" if op["sigma"] < 0.015 else "hi",
                         int(np.floor(np.log10(alpha))), k, op["form"])
            self.rec.probe("GET_EYE calls", 2)
        # the record analysed again under the first seed: same waveform, same draws -> the same estimate (a callee
        # that touched the caller's record, or state carried between calls, shows up here)
        if v_first is not None:
            try:
                e3 = self._estimate_obj(record, op["seeds"][0])
            except Exception as ex:
                raise Violation("C17/finite", f"{what}: analysing the same record again raised {type(ex).__name__}: {ex}",
                                "raise/again")
            bad = [f"{f}: {getattr(e3, f, None)!r} vs {v_first[f]!r}" for f in fields
                   if getattr(e3, f, None) is None or not np.isfinite(float(getattr(e3, f)))
                   or abs(float(getattr(e3, f)) - float(v_first[f])) > 1e-9 * max(abs(float(v_first[f])), swing)]
            if bad:
                raise Violation("C17/equivariance", f"{what}: the same record analysed again under clustering seed "
                                                    f"{op['seeds'][0]} gives another estimate: " + "; ".join(bad[:4]),
                                f"repeat/{bad[0].split(':')[0]}")
            self.rec.probe("GET_EYE calls", 1)
        if len(set(digs)) > 1:
            self.rec.probe("clustering seeds gave different (in-band) estimates")
        self.rec.ok_ops += 1
        return core.derive_seed(repr(digs)) & 0xFFFFFF

    @staticmethod
    def _ampclass(x):
        return f"1e{int(np.floor(np.log10(abs(x))))}"


def execute(spec, rec, known):
    b = Bench(rec)
    if spec.get("kind") == "trunc":
        _, ops = generate(spec["seed"], "quick")
        case = dict([o for o in ops if o["op"] == "case"][0], nslots=spec["nslots"])
        case["seeds"] = case["seeds"][:1]
        if case["pattern"] == "blocks" or case["pattern"].startswith("ppm"):
            case["pattern"] = "random"
        spec = dict(spec, ops=[case])
    core.run_ops(b, spec["ops"], rec, "C17/finite")
    rec.sim_s = b.clock.covered
