"""C15 - binary_sequence is a closed, immutable-by-operation algebra over {0,1}.

Value-pool simulation against a list-of-bits reference model; faults: the caller
scribbles into a live object's public buffer after it was used (aliasing shows up
only then), operands are write-protected (a library write to an operand raises at
the offending line).  Plus a labelled exhaustive baseline over all words <= 12 bits.
"""
import random
import warnings

import numpy as np

from sim import core, seams
from sim.core import Violation

PROPERTY = "C15"
RULE = ("seeded histories of constructor/concat/invert/index/compare ops over a pool of <=8 live "
        "binary_sequence objects, interleaved with scribble and freeze faults, checked op by op against a "
        "list-of-ints model; distinct = (op kind, container kind, length class, outcome class) signatures "
        "reached in runs with >=3 successful library ops; 'exh' tasks enumerate every word of one length <=12")
WALL = {"quick": 300, "thorough": 900, "replay": 600}
BLOCK = {"quick": 100000, "thorough": 8192}
SELFTEST = {"quick": 24, "thorough": 200}
COMPONENTS_REAL = ["opticomlib.typing.binary_sequence", "opticomlib.typing.electrical_signal (__gt__/__lt__)",
                   "opticomlib.utils.str2array", "numpy"]
COMPONENTS_STUB = ["opticomlib.utils.tm (SimClock)"]
ASSUMPTIONS = [
    "an ndarray on the LEFT of + is not generated (numpy's own __add__ answers before __radd__ is consulted)",
    "scalars are accepted by the constructor but not generated as concat operands (docstring: str/sequence/array)",
    "out-of-range integer indices may raise IndexError (statement silent); empty selections are valid empty sequences",
    "for complex or negative signals only validity and length of the comparison result are asserted",
]
N_RUNS = {"quick": 3000, "thorough": 40000}

NEW_KINDS = ["str", "str_sp", "str_comma", "str_mixed", "str_lead_sp", "str_lead_groups", "str_lead_comma", "str_trail",
             "list", "tuple", "arr_bool", "arr_int", "arr_float",
             "arr_u8", "list_bool", "list_float", "scalar_int", "scalar_bool", "scalar_float", "np_scalar", "arr0d",
             "np_bool", "arr0d_bool", "tuple_npbool"]
CAT_KINDS_R = ["obj", "obj", "str", "str_sp", "str_comma", "str_lead_sp", "str_lead_groups", "str_lead_comma", "list", "tuple", "arr_int", "arr_bool", "arr_float",
               "arr_u8", "list_bool"]
CAT_KINDS_L = ["str", "str_sp", "list", "tuple", "list_bool", "str_comma", "str_lead_sp", "str_lead_groups", "str_trail"]
BAD_NEW = ["two", "neg", "half", "str2", "stra", "2d", "none", "complex", "nan", "3d", "str2d", "strempty",
           "mixed_bad", "big", "strneg", "strfloat", "row2d", "col2d", "nest3d", "tuple_of_list", "ones_1x4", "arr_1x1",
           "frac_trunc", "wrap256", "neg_half", "inf", "inf_scalar", "neginf", "inf32", "str_nl", "str_tab", "str_cr",
           "cplx_tiny", "cplx_tiny_list", "cplx_tiny_scalar", "cplx64_tiny", "cplx_tiny_str", "cplx_tiny0", "almost1",
           "almost0", "f32_almost1"]
BAD_CAT = ["two", "neg", "half", "2d", "str2", "stra", "scalar_obj", "dict", "none", "str_nl", "str_tab"]


def tasks(tier, master):
    specs = [{"kind": "run", "i": i, "seed": core.derive_seed(master, PROPERTY, tier, i), "tier": tier}
             for i in range(N_RUNS[tier])]
    specs += [{"kind": "exh", "i": L, "len": L, "tier": tier} for L in range(1, 13)]
    return specs


# ----------------------------------------------------------------------------
# generation (pure function of the seed)
# ----------------------------------------------------------------------------
def _bits(rng, n):
    style = rng.random()
    if style < 0.1:
        return [0] * n
    if style < 0.2:
        return [1] * n
    if style < 0.3:
        return [(k + 1) % 2 for k in range(n)]
    return [rng.getrandbits(1) for _ in range(n)]


def _len(rng):
    return rng.choice([0, 1, 1, 2, 3, 5, 7, 8, 12, 13, 16, 17, 31, 64, 100, 257])


def generate(seed, tier):
    rng = random.Random(seed)
    n_ops = rng.randint(12, 40)
    weights = {"new": 5, "concat": 7, "invert": 3, "index": 5, "compare": 3, "bad_new": 1, "bad_cat": 1,
               "scribble": rng.choice([0, 2, 4]), "freeze": rng.choice([0, 1, 2]), "drop": 1}
    kinds = [k for k, w in weights.items() for _ in range(w)]
    ops = [{"op": "new", "kind": rng.choice(NEW_KINDS[:10]), "bits": _bits(rng, rng.choice([3, 5, 8, 12]))}]
    for _ in range(n_ops):
        k = rng.choice(kinds)
        if k == "new":
            kind = rng.choice(NEW_KINDS)
            n = 1 if kind.startswith("scalar") or kind in ("np_scalar", "arr0d", "np_bool", "arr0d_bool") else _len(rng)
            if kind.startswith("str") and n == 0:
                n = 1
            if rng.random() < 0.03:
                ops.append({"op": "new", "kind": rng.choice(["str", "list", "arr_u8", "arr_bool"]),
                            "n": rng.choice([1000, 4096, 5000, 70000] + ([300000, (1 << 20) + 1] if rng.random() < 0.1 else [])),
                            "bseed": rng.getrandbits(32)})
            else:
                ops.append({"op": "new", "kind": kind, "bits": _bits(rng, n)})
        elif k == "concat":
            side = "l" if rng.random() < 0.3 else "r"
            kind = rng.choice(CAT_KINDS_L if side == "l" else CAT_KINDS_R)
            n = _len(rng)
            if kind.startswith("str") and n == 0:
                n = 2
            ops.append({"op": "concat", "a": rng.getrandbits(16), "b": rng.getrandbits(16), "side": side,
                        "kind": kind, "bits": _bits(rng, n), "iadd": rng.random() < 0.2})
            if kind.startswith("str") and rng.random() < 0.4:
                ops.insert(len(ops) - 1, {"op": "s2a", "kind": kind, "bits": ops[-1]["bits"]})
        elif k == "invert":
            ops.append({"op": "invert", "a": rng.getrandbits(16)})
        elif k == "index":
            if rng.random() < 0.35:
                ops.append({"op": "index", "a": rng.getrandbits(16), "int": rng.randint(-300, 300),
                            "oob": rng.random() < 0.1})
            else:
                def v():
                    return None if rng.random() < 0.35 else rng.randint(-20, 20)
                step = rng.choice([None, None, 1, 2, 3, -1, -2, 5, -7])
                ops.append({"op": "index", "a": rng.getrandbits(16), "sl": [v(), v(), step]})
        elif k == "compare":
            ops.append({"op": "compare", "n": rng.choice([1, 2, 5, 16, 33, 128]), "dseed": rng.getrandbits(32),
                        "dom": rng.choice(["nonneg", "nonneg", "nonneg_int", "real", "complex"]), "noise": rng.random() < 0.5,
                        "thr": rng.choice(["pyfloat", "pyint", "npfloat", "list", "array", "len1"]),
                        "cmp": rng.choice([">", "<"]), "tie": rng.random() < 0.2,
                        "scale": rng.choice([1, 1, 1, 1, 1, 1, 1e-200, 1e200, 1e-170, 1e160, 5e9]),
                        "mism": rng.choice([0, 0, 0, 0, 0, 0, 1, 2, -1, 7]), "again": rng.random() < 0.35})
        elif k == "bad_new":
            ops.append({"op": "bad_new", "what": rng.choice(BAD_NEW)})
        elif k == "bad_cat":
            ops.append({"op": "bad_cat", "a": rng.getrandbits(16), "what": rng.choice(BAD_CAT),
                        "side": rng.choice(["l", "r"])})
        elif k == "scribble":
            ops.append({"op": "scribble", "a": rng.getrandbits(16), "pos": rng.getrandbits(16),
                        "val": rng.getrandbits(1), "whole": rng.random() < 0.2})
        elif k == "freeze":
            ops.append({"op": "freeze", "on": rng.random() < 0.6})
        elif k == "drop":
            ops.append({"op": "drop", "a": rng.getrandbits(16)})
    return {"pool_max": 8}, ops


def simplify_op(op):
    if op.get("op") in ("new", "concat") and len(op.get("bits", [])) > 2:
        b = op["bits"]
        yield dict(op, bits=b[: len(b) // 2])
        yield dict(op, bits=b[:2])
    if op.get("op") == "new" and op.get("kind") not in ("list", None, "arr0d", "np_bool", "arr0d_bool") and "bits" in op \
            and len(op["bits"]) != 1:
        yield dict(op, kind="list")
    if op.get("op") == "concat" and op.get("kind") not in ("list", "obj"):
        yield dict(op, kind="list")
    if op.get("op") == "compare" and op.get("n", 0) > 2:
        yield dict(op, n=2)


# ----------------------------------------------------------------------------
# containers
# ----------------------------------------------------------------------------
def _container(kind, bits):
    """-> (python object handed to the library, ndarray or None to guard)"""
    if kind == "str":
        return "".join(str(b) for b in bits), None
    if kind == "str_sp":
        return " ".join(str(b) for b in bits), None
    if kind == "str_comma":
        return ",".join(str(b) for b in bits), None
    if kind == "str_mixed":
        return "".join(str(b) + (", " if k % 3 == 0 else " " if k % 3 == 1 else "") for k, b in enumerate(bits)), None
    if kind == "str_lead_sp":       # separators before the first bit / after the last one
        return " " + "".join(str(b) for b in bits), None
    if kind == "str_lead_groups":
        return " " + "".join(str(b) + (" " if k % 3 == 0 else "") for k, b in enumerate(bits)).rstrip(), None
    if kind == "str_lead_comma":
        return ", " + ",".join(str(b) for b in bits), None
    if kind == "str_trail":
        return "".join(str(b) for b in bits) + " ", None
    if kind == "list":
        return list(bits), None
    if kind == "tuple":
        return tuple(bits), None
    if kind == "list_bool":
        return [bool(b) for b in bits], None
    if kind == "list_float":
        return [float(b) for b in bits], None
    if kind == "arr_bool":
        a = np.array(bits, dtype=bool)
        return a, a
    if kind == "arr_int":
        a = np.array(bits, dtype=np.int64)
        return a, a
    if kind == "arr_float":
        a = np.array(bits, dtype=float)
        return a, a
    if kind == "arr_u8":
        a = np.array(bits, dtype=np.uint8)
        return a, a
    if kind == "scalar_int":
        return int(bits[0]), None
    if kind == "scalar_bool":
        return bool(bits[0]), None
    if kind == "scalar_float":
        return float(bits[0]), None
    if kind == "np_scalar":
        return np.uint8(bits[0]), None
    if kind == "arr0d":
        return np.array(int(bits[0])), None
    if kind == "arr0d_bool":
        return np.squeeze(np.array([bool(bits[0])])), None
    if kind == "np_bool":
        return np.bool_(bits[0]), None
    if kind == "tuple_npbool":
        return tuple(np.bool_(b) for b in bits), None
    raise ValueError(kind)


def _bad_value(what):
    return {
        "two": [0, 1, 2], "neg": [0, -1], "half": [0.5, 1], "str2": "0120", "stra": "01a1",
        "2d": [[0, 1], [1, 0]], "none": None, "complex": [1j, 0], "nan": [float("nan"), 1.0],
        "3d": np.zeros((2, 2, 2), dtype=int), "str2d": "01;10", "strempty": "", "mixed_bad": [0, 1, "x"],
        "big": np.array([0, 255], dtype=np.uint8), "strneg": "0 -1 1", "strfloat": "0.5 1",
        "scalar_obj": 1, "dict": {"a": 1}, "row2d": [[0, 1]], "col2d": [[1], [0], [1]], "nest3d": [[[1]]],
        "tuple_of_list": ([1, 0, 1],), "ones_1x4": np.ones((1, 4)), "arr_1x1": np.zeros((1, 1), dtype=int),
        "frac_trunc": [0, 1.9, 1], "wrap256": [0, 256, 1], "neg_half": [-0.5, 1], "inf": [0, float("inf"), 1],
        "inf_scalar": float("inf"), "neginf": [float("-inf")], "inf32": np.array([np.inf, 1], dtype=np.float32),
        # elements that are not exactly 0 or 1, by less than common "close enough" tolerances
        "cplx_tiny": np.array([1 + 1e-15j, 0]), "cplx_tiny_list": [0, 1 + 1e-15j], "cplx_tiny_scalar": 1 + 1e-300j,
        "cplx64_tiny": np.array([1 + 1e-6j, 0], dtype=np.complex64), "cplx_tiny_str": "1+1e-15j 0",
        "cplx_tiny0": np.array([1e-20j, 1]), "almost1": [0, 1 - 1e-16, 1], "almost0": [1e-300, 1],
        "f32_almost1": np.array([1 + 2e-7, 0], dtype=np.float32),
        "str_nl": "000011110000\n", "str_tab": "0101\t0", "str_cr": "01\r\n10", "str_plus": "+1 0 1", "str_dot": "1.0 0.0",
    }[what]


def _lenclass(n):
    return "0" if n == 0 else "1" if n == 1 else "s" if n <= 12 else "m" if n <= 300 else "L" if n <= 5000 else "XL"


# ----------------------------------------------------------------------------
# the machine
# ----------------------------------------------------------------------------
class Machine:
    def __init__(self, cfg, rec, known):
        from opticomlib.typing import binary_sequence, electrical_signal
        self.BS = binary_sequence
        self.ES = electrical_signal
        self.rec = rec
        self.known = known
        self.pool = []       # list of [obj, model(list), digest]
        self.frozen = False
        self.pool_max = cfg.get("pool_max", 8)
        self.clock = seams.install_clock(0)

    # -- invariants --------------------------------------------------------
    def _valid(self, o, what):
        if not isinstance(o, self.BS):
            raise Violation("C15/domain", f"{what}: result is {type(o).__name__}, not binary_sequence", what)
        d = o.data
        if not isinstance(d, np.ndarray) or d.ndim != 1 or d.dtype != np.uint8:
            raise Violation("C15/domain", f"{what}: .data is {type(d).__name__} ndim={getattr(d, 'ndim', None)} "
                                          f"dtype={getattr(d, 'dtype', None)}; must be 1-D uint8", what)
        if d.size and not np.all((d == 0) | (d == 1)):
            raise Violation("C15/domain", f"{what}: .data holds values outside {{0,1}}: {np.unique(d)[:5]}", what)

    def _check_pool(self, what, oracle="C15/operand-mutated"):
        for k, (o, m, dg) in enumerate(self.pool):
            self._valid(o, f"{what}/pool[{k}]")
            if o.data.tolist() != m:
                raise Violation(oracle, f"{what}: live object #{k} changed: model {m[:16]} data {o.data.tolist()[:16]}",
                                what)

    def _no_alias(self, res, what, extra=()):
        for k, (o, m, dg) in enumerate(self.pool):
            if o is not res and seams.shares(res.data, o.data):
                raise Violation("C15/alias", f"{what}: result buffer shares memory with live object #{k}", what)
        for a in extra:
            if a is not None and seams.shares(res.data, a):
                raise Violation("C15/alias", f"{what}: result buffer shares memory with an input array", what)

    def _push(self, o, model):
        if self.frozen:
            seams.set_writeable([o.data], False)
        self.pool.append([o, list(model), None])
        if len(self.pool) > self.pool_max:
            self.pool.pop(0)

    def _get(self, h):
        if not self.pool:
            return None
        return self.pool[h % len(self.pool)]

    def _laws(self, o, what):
        n = len(o)
        ones, zeros = int(o.ones()), int(o.zeros())
        if n != o.len() or n != o.data.size:
            raise Violation("C15/law", f"{what}: len() inconsistent {n} {o.len()} {o.data.size}", what)
        if ones + zeros != n:
            raise Violation("C15/law", f"{what}: ones()+zeros()={ones}+{zeros} != len()={n}", what)
        inv = ~o
        self._valid(inv, what + "/~")
        if int(inv.ones()) != zeros:
            raise Violation("C15/law", f"{what}: ones(~a)={int(inv.ones())} != zeros(a)={zeros}", what)
        back = ~inv
        self._valid(back, what + "/~~")
        if back.data.tolist() != o.data.tolist() or not (back == o):
            raise Violation("C15/law", f"{what}: ~~a != a", what)

    # -- ops -----------------------------------------------------------------
    def apply(self, op, step):
        rec = self.rec
        kind = op["op"]
        rec.n_ops += 1
        fn = getattr(self, "op_" + kind)
        with warnings.catch_warnings():
            warnings.simplefilter("ignore")
            out = fn(op)
        rec.log(step, kind, out)
        self._check_pool(f"after {kind}")
        return out

    def op_new(self, op):
        if "bits" in op:
            bits = op["bits"]
        else:
            bits = np.random.RandomState(op["bseed"]).randint(0, 2, op["n"]).tolist()
        kind = op["kind"]
        if kind.startswith("scalar") or kind in ("np_scalar", "arr0d", "np_bool", "arr0d_bool"):
            bits = bits[:1] or [0]
        if kind.startswith("str") and not bits:
            bits = [0]
        arg, guard = _container(kind, bits)
        before = None if guard is None else guard.copy()
        if guard is not None and self.frozen:
            guard.setflags(write=False)
        try:
            o = self.BS(arg)
        except Exception as e:
            raise Violation("C15/reject", f"constructor rejected valid {kind} input {bits[:12]}: {e!r}", f"new/{kind}")
        self._valid(o, f"new/{kind}")
        if o.data.tolist() != list(bits):
            raise Violation("C15/value", f"new/{kind}: data {o.data.tolist()[:16]} != {bits[:16]}", f"new/{kind}")
        if guard is not None and not np.array_equal(guard, before):
            raise Violation("C15/operand-mutated", f"new/{kind}: input array modified", f"new/{kind}")
        self._no_alias(o, f"new/{kind}", [guard])
        self._laws(o, f"new/{kind}")
        self._push(o, bits)
        self.rec.ok_ops += 1
        self.rec.sig("new", kind, _lenclass(len(bits)), "ok")
        return f"ok:{len(bits)}"

    def op_bad_new(self, op):
        what = op["what"]
        val = _bad_value(what)
        try:
            o = self.BS(val)
        except (ValueError, TypeError) as e:
            self.rec.sig("bad_new", what, "-", type(e).__name__)
            self.rec.probe("invalid construction rejected")
            return type(e).__name__
        except Exception as e:
            raise Violation("C15/reject", f"invalid input {what} raised {type(e).__name__} instead of "
                                          f"ValueError/TypeError: {e}", f"bad_new/{what}")
        raise Violation("C15/reject", f"invalid input {what}={val!r} was accepted: data={getattr(o, 'data', None)}",
                        f"bad_new/{what}")

    def op_concat(self, op):
        ea = self._get(op["a"])
        if ea is None:
            return "skip"
        a, ma, _ = ea
        kind, side = op["kind"], op["side"]
        guard = None
        if kind == "obj":
            eb = self._get(op["b"])
            other, mb = eb[0], eb[1]
        else:
            mb = list(op["bits"])
            if kind.startswith("str") and not mb:
                mb = [1]
            other, guard = _container(kind, mb)
            if guard is not None and self.frozen:
                guard.setflags(write=False)
        gb = None if guard is None else guard.copy()
        what = f"concat/{side}/{kind}"
        try:
            if side == "r" and op.get("iadd"):
                t_ = a
                t_ += other          # augmented assignment must not modify the object `a` still refers to
                res = t_
            else:
                res = (a + other) if side == "r" else (other + a)
        except Exception as e:
            raise Violation("C15/reject", f"{what}: valid concatenation raised {e!r} (a={ma[:8]}, b={mb[:8]})", what)
        self._valid(res, what)
        exp = (ma + mb) if side == "r" else (mb + ma)
        if res.data.tolist() != exp:
            raise Violation("C15/value", f"{what}: got {res.data.tolist()[:20]} expected {exp[:20]}", what)
        if guard is not None and not np.array_equal(guard, gb):
            raise Violation("C15/operand-mutated", f"{what}: container operand modified", what)
        self._no_alias(res, what, [guard])
        # laws
        if len(res) != len(a) + len(mb):
            raise Violation("C15/law", f"{what}: len(a+b) != len(a)+len(b)", what)
        if side == "r":
            head = res[: len(a)] if len(a) else None
            if head is not None:
                self._valid(head, what + "/head")
                if head.data.tolist() != ma or not (head == a):
                    raise Violation("C15/law", f"{what}: (a+b)[:len(a)] != a", what)
        self._laws(res, what)
        self._push(res, exp)
        self.rec.ok_ops += 1
        self.rec.sig("concat", side + kind, _lenclass(len(exp)), "ok")
        if kind == "obj" and eb[0] is a:
            self.rec.probe("self-concatenation a+a")
        return f"ok:{len(exp)}"

    def op_s2a(self, op):
        """Another part of the program reads the same text as *numbers* (public str2array with a numeric dtype);
        the text is then used as a bit pattern by the next op."""
        import opticomlib.utils as ut
        bits = list(op["bits"]) or [1]
        s_, _ = _container(op["kind"], bits)
        if len(bits) > 15 and op["kind"] == "str":
            return "skip"
        for dt in (int, float, None):
            try:
                arr = ut.str2array(s_, dt) if dt is not None else ut.str2array(s_)
                # ... and owns what it got back: it writes into the array (must not reach any later reader of the text)
                if isinstance(arr, np.ndarray) and arr.flags.writeable and arr.size:
                    arr[...] = 1 - arr if arr.dtype != bool else ~arr
                    self.rec.fault("scribble_result")
            except Exception:
                pass
        return "ok"

    def op_bad_cat(self, op):
        ea = self._get(op["a"])
        if ea is None:
            return "skip"
        a = ea[0]
        what = op["what"]
        val = _bad_value(what)
        try:
            res = (a + val) if op["side"] == "r" else (val + a)
        except (ValueError, TypeError) as e:
            self.rec.sig("bad_cat", what, op["side"], type(e).__name__)
            return type(e).__name__
        except Exception as e:
            raise Violation("C15/reject", f"concat with invalid {what} raised {type(e).__name__}: {e}", f"bad_cat/{what}")
        raise Violation("C15/reject", f"concat with invalid {what}={val!r} accepted -> {getattr(res, 'data', res)}",
                        f"bad_cat/{what}")

    def op_invert(self, op):
        ea = self._get(op["a"])
        if ea is None:
            return "skip"
        a, ma, _ = ea
        res = ~a
        self._valid(res, "invert")
        exp = [1 - b for b in ma]
        if res.data.tolist() != exp:
            raise Violation("C15/value", f"invert: got {res.data.tolist()[:20]} expected {exp[:20]}", "invert")
        self._no_alias(res, "invert")
        self._laws(res, "invert")
        self._push(res, exp)
        self.rec.ok_ops += 1
        self.rec.sig("invert", "-", _lenclass(len(exp)), "ok")
        return f"ok:{len(exp)}"

    def op_index(self, op):
        ea = self._get(op["a"])
        if ea is None:
            return "skip"
        a, ma, _ = ea
        n = len(ma)
        if "int" in op:
            if op.get("oob") or n == 0:
                idx = n + abs(op["int"]) % 5 if op["int"] >= 0 else -n - 1 - abs(op["int"]) % 5
                try:
                    res = a[idx]
                except IndexError:
                    self.rec.sig("index", "int-oob", _lenclass(n), "IndexError")
                    return "IndexError"
                raise Violation("C15/value", f"index {idx} outside a {n}-bit sequence returned "
                                             f"{getattr(res, 'data', res)}", "index/int-oob")
            idx = op["int"] % (2 * n) - n
            key, exp, form = idx, [ma[idx]], "int" if idx >= 0 else "negint"
        else:
            s = slice(*op["sl"])
            key, exp = s, ma[s]
            form = "slice" + ("-step" if (op["sl"][2] or 1) != 1 else "") + ("-neg" if (op["sl"][2] or 1) < 0 else "")
        what = f"index/{form}"
        try:
            res = a[key]
        except Exception as e:
            raise Violation("C15/reject", f"{what}: a[{key}] on {n} bits raised {e!r}", what)
        self._valid(res, what)
        if res.data.tolist() != exp:
            raise Violation("C15/value", f"{what}: a[{key}] got {res.data.tolist()[:20]} expected {exp[:20]}", what)
        self._no_alias(res, what)
        self._laws(res, what)
        self._push(res, exp)
        self.rec.ok_ops += 1
        self.rec.sig("index", form, _lenclass(len(exp)), "ok")
        if not exp:
            self.rec.probe("empty selection")
        return f"ok:{len(exp)}"

    def op_compare(self, op):
        n, dom = op["n"], op["dom"]
        rs = np.random.RandomState(op["dseed"])
        if dom == "nonneg_int":        # integer-typed samples compared with fractional thresholds
            sig = rs.randint(0, 4, n).astype([np.int64, np.int32, np.uint8, np.uint16][op["dseed"] % 4])
            noise = rs.randint(0, 2, n).astype(sig.dtype) if op["noise"] else None
            dom = "nonneg"
        elif dom == "nonneg":
            sig = np.round(rs.uniform(0, 2, n), 2)
            noise = np.round(rs.uniform(0, 0.3, n), 2) if op["noise"] else None
        elif dom == "real":
            sig = np.round(rs.uniform(-2, 2, n), 2)
            noise = np.round(rs.normal(0, 0.3, n), 2) if op["noise"] else None
        else:
            sig = np.round(rs.uniform(-2, 2, n) + 1j * rs.uniform(-2, 2, n), 2)
            noise = np.round(rs.normal(0, 0.3, n) + 1j * rs.normal(0, 0.3, n), 2) if op["noise"] else None
        sc_ = op.get("scale", 1)
        if sc_ != 1 and dom == "nonneg":
            # extreme magnitudes: comparisons must not go through squares (under/overflow, integer wrap)
            if sig.dtype.kind in "iu":
                if sc_ == 5e9 and sig.dtype == np.int64:
                    sig = sig * np.int64(5_000_000_000)
                    noise = None if noise is None else noise * np.int64(5_000_000_000)
                else:
                    sc_ = 1
            elif sc_ != 5e9:
                sig = sig * sc_
                noise = None if noise is None else noise * sc_
            else:
                sc_ = 1
        else:
            sc_ = 1
        total = sig if noise is None else sig + noise
        tk = op["thr"]
        if tk in ("list", "array"):
            thr_arr = (np.round(rs.uniform(0, 2, n), 2) if op["dom"] != "nonneg_int" else rs.randint(0, 8, n) / 2.0) * sc_
            if op.get("tie") and dom == "nonneg":
                thr_arr[:: 2] = total[:: 2].real
            thr = thr_arr.tolist() if tk == "list" else thr_arr
            if op["dom"] == "nonneg_int" and tk == "array" and op["dseed"] % 2 == 0 and sc_ == 1:
                thr_arr = np.floor(thr_arr)
                thr = thr_arr.astype(np.uint8)    # unsigned integer threshold array
        else:
            t = (float(np.round(rs.uniform(0, 2), 2)) if op["dom"] != "nonneg_int" else float(rs.randint(0, 8) / 2.0)) * sc_
            if op.get("tie") and dom == "nonneg":
                t = float(total[0].real)
            thr_arr = np.full(n, t)
            thr = {"pyfloat": t, "pyint": int(round(t)), "npfloat": np.float64(t), "len1": [t]}[tk]
            if op["dom"] == "nonneg_int" and tk == "npfloat" and t == int(t) and op["dseed"] % 3 == 0 and sc_ == 1:
                thr = np.uint8(int(t))            # unsigned numpy scalar threshold
            if tk == "pyint":
                thr_arr = np.full(n, float(int(round(t))))
        x = self.ES(sig.copy(), None if noise is None else noise.copy())
        xs, xn = x.signal.copy(), None if x.noise is None else x.noise.copy()
        guard = thr.copy() if isinstance(thr, np.ndarray) else None
        if self.frozen:
            seams.set_writeable([x.signal, x.noise, thr if isinstance(thr, np.ndarray) else None], False)
        what = f"compare/{op['cmp']}/{dom}/{tk}"
        mism = op.get("mism", 0)
        if mism and tk in ("list", "array") and n + mism >= 2:
            # a threshold vector of another length: refusing is documented; whatever is returned must still have
            # the signal's length (a length-1 vector is a scalar threshold and is exercised as "len1")
            m = n + mism
            tl = np.resize(thr_arr, m).astype(float)
            tl = tl.tolist() if tk == "list" else (tl if op["dseed"] % 3 else self.ES(tl))
            try:
                res = (x > tl) if op["cmp"] == ">" else (x < tl)
            except (ValueError, TypeError) as e:
                self.rec.fault("failed_call")
                self.rec.sig("compare", "mism", _lenclass(n), type(e).__name__)
                return type(e).__name__
            except Exception as e:
                raise Violation("C15/reject", f"{what}: threshold of length {m} vs {n} samples raised {e!r}", what)
            self._valid(res, what)
            if len(res) != n:
                raise Violation("C15/compare", f"{what}: result has {len(res)} bits for a {n}-sample signal "
                                               f"(threshold of length {m})", what)
            return "mism-accepted"
        try:
            res = (x > thr) if op["cmp"] == ">" else (x < thr)
        except Exception as e:
            raise Violation("C15/reject", f"{what}: comparison raised {e!r}", what)
        self._valid(res, what)
        if len(res) != n:
            raise Violation("C15/compare", f"{what}: result has {len(res)} bits for a {n}-sample signal", what)
        if not np.array_equal(x.signal, xs) or (xn is not None and not np.array_equal(x.noise, xn)):
            raise Violation("C15/operand-mutated", f"{what}: the compared signal was modified", what)
        if guard is not None and not np.array_equal(guard, thr):
            raise Violation("C15/operand-mutated", f"{what}: the threshold array was modified", what)
        if dom == "nonneg":
            tv = total.real
            exp = (tv > thr_arr) if op["cmp"] == ">" else (tv < thr_arr)
            exp = exp.astype(int).tolist()
            if res.data.tolist() != exp:
                bad = [k for k in range(n) if res.data[k] != exp[k]][:5]
                raise Violation("C15/compare", f"{what}: differs from element-wise signal+noise {op['cmp']} thr at "
                                               f"{bad}: total={tv[bad]} thr={thr_arr[bad]}", what)
        self._no_alias(res, what, [x.signal, x.noise])
        self._laws(res, what)
        if op.get("again") and dom == "nonneg" and not self.frozen and sig.dtype.kind == "f" and n >= 1:
            # the owner updates the samples of the same object in place and compares again: the decision must follow
            # the present samples (nothing remembered from the first comparison)
            rs2 = np.random.RandomState(op["dseed"] ^ 0x5A5A)
            x.signal[::2] = np.round(rs2.uniform(0, 2, x.signal[::2].shape), 2) * sc_
            if x.noise is not None:
                x.noise += np.round(rs2.uniform(0, 0.3, n), 2) * sc_
            tot2 = np.asarray(x.signal if x.noise is None else x.signal + x.noise).real
            try:
                res2 = (x > thr) if op["cmp"] == ">" else (x < thr)
            except Exception as e:
                raise Violation("C15/reject", f"{what}: second comparison after an in-place update raised {e!r}", what)
            self._valid(res2, what)
            exp2 = ((tot2 > thr_arr) if op["cmp"] == ">" else (tot2 < thr_arr)).astype(int).tolist()
            if res2.data.tolist() != exp2:
                bad = [k for k in range(n) if res2.data[k] != exp2[k]][:5]
                raise Violation("C15/compare", f"{what}: after the signal was updated in place the comparison does not "
                                               f"follow the present samples at {bad}: total={tot2[bad]} thr={thr_arr[bad]}",
                                what + "/again")
            self.rec.fault("operand_updated_in_place")
        self._push(res, res.data.tolist())
        self.rec.ok_ops += 1
        self.rec.sig("compare", f"{op['cmp']}{dom}{tk}", _lenclass(n), "noise" if op["noise"] else "clean")
        return "ok:" + core.array_digest(res.data)[:8]

    def op_scribble(self, op):
        ea = self._get(op["a"])
        if ea is None or not ea[1]:
            return "skip"
        o, m, _ = ea
        if not o.data.flags.writeable:
            return "skip-frozen"
        if op.get("whole"):
            o.data[:] = op["val"]
            for k in range(len(m)):
                m[k] = op["val"]
        else:
            p = op["pos"] % len(m)
            o.data[p] = op["val"]
            m[p] = op["val"]
        self.rec.fault("scribble")
        return "hit"

    def op_freeze(self, op):
        self.frozen = bool(op["on"])
        seams.set_writeable([o.data for o, m, _ in self.pool], not self.frozen)
        if self.frozen and self.pool:
            self.rec.fault("freeze")
        return str(self.frozen)

    def op_drop(self, op):
        if len(self.pool) > 1:
            self.pool.pop(op["a"] % len(self.pool))
            return "dropped"
        return "skip"


def _run_ops(spec, rec, known):
    m = Machine(spec.get("cfg", {}), rec, known)
    core.run_ops(m, spec["ops"], rec, "C15/reject", "C15/operand-mutated")
    rec.sim_s = m.clock.covered


def _exhaustive(L, rec):
    from opticomlib.typing import binary_sequence as BS
    n_words = 0
    for w in range(2 ** L):
        bits = [(w >> (L - 1 - k)) & 1 for k in range(L)]
        s = "".join(map(str, bits))
        a = BS(s)
        if a.data.dtype != np.uint8 or a.data.ndim != 1 or a.data.tolist() != bits:
            raise Violation("C15/value", f"exhaustive: BS('{s}').data = {a.data}", "exh/new")
        inv = ~a
        if inv.data.tolist() != [1 - b for b in bits] or inv.data.dtype != np.uint8:
            raise Violation("C15/value", f"exhaustive: ~BS('{s}') = {inv.data}", "exh/invert")
        if (~inv).data.tolist() != bits:
            raise Violation("C15/law", f"exhaustive: ~~a != a for '{s}'", "exh/invert")
        if int(a.ones()) + int(a.zeros()) != L or int(a.ones()) != sum(bits) or int(inv.ones()) != int(a.zeros()):
            raise Violation("C15/law", f"exhaustive: ones/zeros law broken for '{s}'", "exh/count")
        for cut in range(L + 1):
            left, right = bits[:cut], bits[cut:]
            x = BS(left) if cut % 2 else BS(np.array(left, dtype=np.uint8))
            y = right if cut % 3 == 0 else "".join(map(str, right)) if right and cut % 3 == 1 else tuple(right)
            r = x + y
            if r.data.tolist() != bits or r.data.dtype != np.uint8 or len(r) != len(x) + len(right):
                raise Violation("C15/law", f"exhaustive: {left}+{right} -> {r.data}", "exh/concat")
            if cut and not (r[:cut] == x):
                raise Violation("C15/law", f"exhaustive: (a+b)[:len(a)] != a for {left}+{right}", "exh/concat")
            if x.data.tolist() != left:
                raise Violation("C15/operand-mutated", f"exhaustive: operand changed {left}", "exh/concat")
            if right and cut % 4 == 0:
                r2 = y + x if not isinstance(y, np.ndarray) else None
                if r2 is not None and r2.data.tolist() != right + left:
                    raise Violation("C15/value", f"exhaustive: reflected {right}+{left} -> {r2.data}", "exh/radd")
        n_words += 1
        rec.ok_ops += 1
    rec.n_ops += n_words
    rec.log("exh", L, n_words)
    rec.probe(f"exhaustive words of length {L}", n_words)
    rec.sig("exh", L)


def execute(spec, rec, known):
    seams.install_clock(0)
    if spec.get("kind") == "exh":
        with warnings.catch_warnings():
            warnings.simplefilter("ignore")
            _exhaustive(spec["len"], rec)
        return
    _run_ops(spec, rec, known)


def extra_coverage(tier, specs, results):
    done = sorted(s["len"] for s, r in zip(specs, results) if s.get("kind") == "exh" and not r.get("viol"))
    return {"exhaustive_baseline": {"word_lengths_enumerated": done, "exhaustive": done == list(range(1, 13)),
                                    "note": "enumeration of all bit strings of each length (labelled baseline, not simulation)"}}
