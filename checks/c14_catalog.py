"""Catalogue of public library calls used by the C14 bench session.

Every entry has  gen(rng) -> JSON args  and  run(L, args, inp) -> result, where `inp`
maps input types ('O', 'E', 'bits', 'eye') to live library objects.  All arguments are
data, so the same call can be re-issued in the isolated golden process.
"""
import numpy as np

TYPES = ("O", "E", "bits", "eye", "arr")


class Lib:
    """Late-bound handles on the library (resolved after load_library)."""

    def __init__(self):
        import opticomlib.devices as dv
        import opticomlib.ppm as ppm
        import opticomlib.ook as ook
        import opticomlib.utils as ut
        import opticomlib.typing as ty
        self.dv, self.ppm, self.ook, self.ut, self.ty = dv, ppm, ook, ut, ty
        self.gv = ty.gv


def _fiber_safe(x, a):
    """Bound the work of FIBER and avoid its known hang (C08 territory, DESIGN 2.6)."""
    a = dict(a)
    s = np.asarray(x.signal)
    p = np.abs(s) ** 2
    peak = float(p.sum(axis=0).max()) if s.ndim == 2 else float(p.max())
    if not np.isfinite(peak) or peak <= 0:
        a["gamma"] = 0.0
        return a
    if s.ndim == 1:
        # one-polarisation step-size code looks at the first two samples only
        if s.size < 2 or abs(s[0]) == 0 or abs(s[1]) == 0:
            a["gamma"] = 0.0
        else:
            p01 = abs(s[0]) ** 2 + abs(s[1]) ** 2
            if a["gamma"] and a["length"] * a["gamma"] * p01 / a["phi_max"] > 150:
                a["gamma"] = 150 * a["phi_max"] / (a["length"] * p01)
            if a["gamma"] and peak / p01 > 50:
                a["gamma"] = 0.0
    if a["gamma"] and a["length"] * a["gamma"] * peak / a["phi_max"] > 150:
        a["gamma"] = 150 * a["phi_max"] / (a["length"] * peak)
    return a


def _bw(L, f):
    """Bandwidth argument: None, a fraction of the current fs, or an absolute value ["abs", Hz]
    (absolute values collide across grids - the case a memoised design keyed on too little gets wrong)."""
    if f is None:
        return None
    if isinstance(f, (list, tuple)):
        return float(f[1])
    return f * L.gv.fs


ABS_BW = [["abs", 1e9], ["abs", 2e9], ["abs", 5e9], ["abs", 10e9]]


def _eye_ok(e):
    return all(np.isfinite(getattr(e, k, np.nan)) for k in ("mu0", "mu1", "s0", "s1")) and e.s0 > 0 and e.s1 > 0


# --------------------------------------------------------------------------------------------
# entries:  name -> (needs, gen, run, flags)
# flags: 'self' (returns the object itself by design), 'heavy' (rationed), 'stoch' (draws random numbers)
# --------------------------------------------------------------------------------------------
CAT = {}


def entry(name, needs=(), flags=()):
    def deco(cls):
        CAT[name] = (tuple(needs), cls.gen, cls.run, frozenset(flags))
        return cls
    return deco


@entry("PRBS")
class _:
    gen = staticmethod(lambda r: {"order": r.choice([7, 9, 11, 15]), "len": r.choice([16, 64, 127, 200]),
                                  "seed": r.choice([None, 1, 77, 0, -5, 12345]), "ret": r.random() < 0.3})
    run = staticmethod(lambda L, a, i: L.dv.PRBS(a["order"], a["len"], a["seed"], a["ret"]))


@entry("DAC", needs=("bits",))
class _:
    @staticmethod
    def gen(r):
        sh = r.choice(["nrz", "rz", "gaussian", "rect"])
        a = {"bias": r.choice([0.0, 0.5, -1.0]), "Vout": r.choice([1.0, 2.5, 0.3]), "shape": sh,
             "BWf": r.choice([None, None, 0.2, 0.4] + ABS_BW[:2])}
        if sh == "gaussian":
            a.update({"m": r.choice([1, 2, 3]), "c": r.choice([0.0, 0.5]), "Tf": r.choice([0.5, 1.0, 1.5])})
        return a

    @staticmethod
    def run(L, a, i):
        kw = {}
        if a["shape"] == "gaussian":
            kw = {"m": a["m"], "c": a["c"], "T": max(1, int(a["Tf"] * L.gv.sps))}
        return L.dv.DAC(i["bits"], a["bias"], a["Vout"], a["shape"], _bw(L, a["BWf"]), **kw)


@entry("LASER", needs=("arr",), flags=("stoch",))
class _:
    gen = staticmethod(lambda r: {"n": r.choice([64, 256, 1000]), "p": r.choice([0, 10, -3]),
                                  "lw": r.choice([None, 1e6, 10e6]), "rin": r.choice([None, -150, -140]),
                                  "dff": r.choice([None, 0.1, -0.2]), "tpool": r.random() < 0.5})

    @staticmethod
    def run(L, a, i):
        t = i["arr"] if a.get("tpool") and i["arr"].ndim == 1 and np.isrealobj(i["arr"]) else np.arange(a["n"]) * L.gv.dt
        return L.dv.LASER(t, a["p"], a["lw"], a["rin"], None if a["dff"] is None else a["dff"] * L.gv.fs)


@entry("PM", needs=("O", "arr"))
class _:
    gen = staticmethod(lambda r: {"drive": r.choice(["float", "int", "arr", "es", "poolarr"]), "v": r.choice([2.5, 1, -3.0]),
                                  "Vpi": r.choice([5.0, 3.3]), "dseed": r.getrandbits(31)})

    @staticmethod
    def run(L, a, i):
        x = i["O"]
        if a["drive"] == "float":
            d = float(a["v"])
        elif a["drive"] == "int":
            d = int(a["v"])
        elif a["drive"] == "poolarr" and i["arr"].ndim == 1 and len(i["arr"]) == len(x) and np.isrealobj(i["arr"]):
            d = i["arr"]                       # the caller's own drive waveform, shared with other users
        else:
            d = np.random.RandomState(a["dseed"]).uniform(-5, 5, len(x))
            if a["drive"] == "es":
                d = L.ty.electrical_signal(d)
        return L.dv.PM(x, d, a["Vpi"])


@entry("MZM", needs=("O", "E", "arr"))
class _:
    gen = staticmethod(lambda r: {"drive": r.choice(["float", "arr", "es", "pool", "poolarr"]), "v": r.choice([2.5, 0.0, -1.0]),
                                  "bias": r.choice([0.0, 2.5]), "Vpi": r.choice([5.0, 3.3]), "loss": r.choice([0.0, 3.0]),
                                  "ER": r.choice([26.0, 10.0, 40.0]), "pol": r.choice(["x", "y"]),
                                  "BWf": r.choice([None, None, 0.3] + ABS_BW[2:]), "dseed": r.getrandbits(31)})

    @staticmethod
    def run(L, a, i):
        x = i["O"]
        if a["drive"] == "float":
            d = a["v"]
        elif a["drive"] == "pool":
            d = i["E"]
        elif a["drive"] == "poolarr" and i["arr"].ndim == 1 and len(i["arr"]) == len(x) and np.isrealobj(i["arr"]):
            d = i["arr"]
        else:
            d = np.random.RandomState(a["dseed"]).uniform(-5, 5, len(x))
            if a["drive"] == "es":
                d = L.ty.electrical_signal(d)
        return L.dv.MZM(x, d, a["bias"], a["Vpi"], a["loss"], a["ER"], a["pol"], _bw(L, a["BWf"]))


@entry("BPF", needs=("O",))
class _:
    gen = staticmethod(lambda r: {"BWf": r.choice([0.1, 0.3, 0.6] + ABS_BW), "n": r.choice([2, 4, 6])})
    run = staticmethod(lambda L, a, i: L.dv.BPF(i["O"], _bw(L, a["BWf"]), a["n"]))


@entry("EDFA", needs=("O",), flags=("stoch",))
class _:
    gen = staticmethod(lambda r: {"G": r.choice([0, 10, 20.0]), "NF": r.choice([4, 5.5]),
                                  "BWf": r.choice([None, 0.3] + ABS_BW[1:3])})
    run = staticmethod(lambda L, a, i: L.dv.EDFA(i["O"], a["G"], a["NF"], _bw(L, a["BWf"])))


@entry("DM", needs=("O",))
class _:
    gen = staticmethod(lambda r: {"D": r.choice([100.0, -2000.0, 4000, 0.0]), "retH": r.random() < 0.3})
    run = staticmethod(lambda L, a, i: L.dv.DM(i["O"], a["D"], a["retH"]))


@entry("FIBER", needs=("O",))
class _:
    gen = staticmethod(lambda r: {"length": r.choice([1.0, 10.0, 25.0]), "alpha": r.choice([0.0, 0.2]),
                                  "beta_2": r.choice([0.0, -20.0, 15.0]), "beta_3": r.choice([0.0, 0.1]),
                                  "gamma": r.choice([0.0, 1.3, 2.0]), "phi_max": r.choice([0.05, 0.01])})

    @staticmethod
    def run(L, a, i):
        x = i["O"]
        a = _fiber_safe(x, a)
        return L.dv.FIBER(x, a["length"], a["alpha"], a["beta_2"], a["beta_3"], a["gamma"], a["phi_max"])


@entry("LPF", needs=("E",))
class _:
    gen = staticmethod(lambda r: {"BWf": r.choice([0.05, 0.2, 0.4] + ABS_BW), "n": r.choice([2, 4]), "arr": r.random() < 0.3,
                                  "fs": r.choice([None, None, "gv"]), "retH": r.random() < 0.25})

    @staticmethod
    def run(L, a, i):
        x = i["E"]
        arg = np.asarray(x.signal).real.copy() if a["arr"] else x
        return L.dv.LPF(arg, _bw(L, a["BWf"]), a["n"], None if a["fs"] is None else L.gv.fs, a["retH"])


@entry("PD", needs=("O",), flags=("stoch",))
class _:
    gen = staticmethod(lambda r: {"BWf": r.choice([0.1, 0.3, 0.45] + ABS_BW), "r": r.choice([1.0, 0.7]), "T": r.choice([300.0, 100]),
                                  "R": r.choice([50.0, 1e3]), "inc": r.choice(["all", "ase-only", "thermal-shot", "Shot-Only"]),
                                  "idk": r.choice([10e-9, 0.0]), "Fn": r.choice([0, 3.0])})
    run = staticmethod(lambda L, a, i: L.dv.PD(i["O"], _bw(L, a["BWf"]), a["r"], a["T"], a["R"], a["inc"], a["idk"],
                                               a["Fn"]))


@entry("ADC", needs=("E",))
class _:
    gen = staticmethod(lambda r: {"n": r.choice([2, 4, 8]), "otype": r.choice(["v", "n"]), "arr": r.random() < 0.2})

    @staticmethod
    def run(L, a, i):
        x = i["E"]
        if not np.isrealobj(np.asarray(x.signal)) or (x.noise is not None and not np.isrealobj(np.asarray(x.noise))):
            x = L.ty.electrical_signal(np.asarray(x.signal).real)
        arg = np.asarray(x.signal).real.copy() if a["arr"] else x
        return L.dv.ADC(arg, None, a["n"], a["otype"])


@entry("GET_EYE", needs=("E",), flags=("stoch", "heavy"))
class _:
    gen = staticmethod(lambda r: {"nslots": r.choice([4096, 64, 32]), "resamp": r.choice([None, None, 32])})
    run = staticmethod(lambda L, a, i: L.dv.GET_EYE(i["E"], a["nslots"], a["resamp"]))


@entry("SAMPLER", needs=("E",))
class _:
    gen = staticmethod(lambda r: {"k": r.choice([0, 1, 3, 7])})
    run = staticmethod(lambda L, a, i: L.dv.SAMPLER(i["E"], a["k"] % max(1, int(L.gv.sps))))


@entry("FBG", needs=("O",), flags=("heavy",))
class _:
    gen = staticmethod(lambda r: {"route": r.choice(["fc_vdneff_kL", "landa_vdneff_L", "fc_dneff_N"]),
                                  "kL": r.choice([1.0, 3.0]), "vdneff": r.choice([1e-4, 5e-4]),
                                  "apo": r.choice(["uniform", "rcos", "gaussian", "parabolic"]), "F": r.choice([0, 0, 5.0]),
                                  "print": r.random() < 0.5, "filtfilt": r.random() < 0.7, "retH": r.random() < 0.3})

    @staticmethod
    def run(L, a, i):
        x = i["O"]
        if len(x) > 256:
            x = x[:256]
        f0 = L.gv.f0
        kw = dict(apodization=a["apo"], F=a["F"], print_params=a["print"], filtfilt=a["filtfilt"], retH=a["retH"])
        if a["route"] == "fc_vdneff_kL":
            return L.dv.FBG(x, fc=f0, vdneff=a["vdneff"], kL=a["kL"], **kw)
        if a["route"] == "landa_vdneff_L":
            return L.dv.FBG(x, landa_D=299792458.0 / f0, vdneff=a["vdneff"], L=0.004, **kw)
        return L.dv.FBG(x, fc=f0, dneff=a["vdneff"], N=8000, **kw)


# ------------------------------- ppm / ook ----------------------------------------------------
@entry("PPM_ENCODER", needs=("bits",))
class _:
    gen = staticmethod(lambda r: {"M": r.choice([2, 4, 8, 16]), "form": r.choice(["bs", "list", "str"])})

    @staticmethod
    def run(L, a, i):
        b = i["bits"]
        arg = b if a["form"] == "bs" else b.data.tolist() if a["form"] == "list" else "".join(map(str, b.data.tolist()))
        return L.ppm.PPM_ENCODER(arg, a["M"])


@entry("PPM_DECODER", needs=("bits", "arr"))
class _:
    gen = staticmethod(lambda r: {"M": r.choice([2, 4, 8]), "form": r.choice(["bs", "bs", "poolbool"])})

    @staticmethod
    def run(L, a, i):
        arg = i["arr"] if a.get("form") == "poolbool" and i["arr"].dtype == bool else i["bits"]
        return L.ppm.PPM_DECODER(arg, a["M"])


@entry("HDD", needs=("bits", "arr"), flags=("stoch",))
class _:
    gen = staticmethod(lambda r: {"M": r.choice([2, 4, 8]), "form": r.choice(["bs", "bs", "poolbool"])})

    @staticmethod
    def run(L, a, i):
        arg = i["arr"] if a.get("form") == "poolbool" and i["arr"].dtype == bool else i["bits"]
        return L.ppm.HDD(arg, a["M"])


@entry("SDD", needs=("E",))
class _:
    gen = staticmethod(lambda r: {"M": r.choice([2, 4])})
    run = staticmethod(lambda L, a, i: L.ppm.SDD(i["E"], a["M"]))


@entry("ppm.THRESHOLD_EST", needs=("eye",))
class _:
    gen = staticmethod(lambda r: {"M": r.choice([2, 4, 16])})
    run = staticmethod(lambda L, a, i: L.ppm.THRESHOLD_EST(i["eye"], a["M"]))


@entry("ppm.DSP", needs=("E",), flags=("stoch",))
class _:
    gen = staticmethod(lambda r: {"M": r.choice([2, 4]), "dec": r.choice(["soft", "hard", "Hard"]),
                                  "thr": r.choice([0.4, 0.5])})
    run = staticmethod(lambda L, a, i: L.ppm.DSP(i["E"], a["M"], a["dec"], a["thr"]))


@entry("ppm.BER_analizer", needs=("bits", "eye"))
class _:
    gen = staticmethod(lambda r: {"mode": r.choice(["counter", "estimator"]), "M": r.choice([2, 4]),
                                  "dec": r.choice(["soft", "hard"]), "flip": r.choice([0, 1, 5])})

    @staticmethod
    def run(L, a, i):
        if a["mode"] == "counter":
            tx = i["bits"]
            rx = tx.data.copy()
            rx[:a["flip"]] ^= 1
            return L.ppm.BER_analizer("counter", Tx=tx, Rx=L.ty.binary_sequence(rx))
        if not _eye_ok(i["eye"]):
            raise ValueError("harness: degenerate eye object, call skipped identically in golden")
        return L.ppm.BER_analizer("estimator", eye_obj=i["eye"], M=a["M"], decision=a["dec"])


@entry("ppm.theory_BER")
class _:
    gen = staticmethod(lambda r: {"mu": r.choice([1.0, 0.5]), "s0": r.choice([0.1, 0.05]), "s1": r.choice([0.1, 0.2]),
                                  "M": r.choice([2, 4, 8]), "dec": r.choice(["soft", "hard"])})
    run = staticmethod(lambda L, a, i: L.ppm.theory_BER(a["mu"], a["s0"], a["s1"], a["M"], a["dec"]))


@entry("ook.THRESHOLD_EST", needs=("eye",))
class _:
    gen = staticmethod(lambda r: {})
    run = staticmethod(lambda L, a, i: L.ook.THRESHOLD_EST(i["eye"]))


@entry("ook.BER_analizer", needs=("bits", "eye"))
class _:
    gen = staticmethod(lambda r: {"mode": r.choice(["counter", "estimator"]), "flip": r.choice([0, 2])})

    @staticmethod
    def run(L, a, i):
        if a["mode"] == "counter":
            tx = i["bits"]
            rx = tx.data.copy()
            rx[:a["flip"]] ^= 1
            return L.ook.BER_analizer("counter", Tx=tx, Rx=L.ty.binary_sequence(rx))
        return L.ook.BER_analizer("estimator", eye_obj=i["eye"])


@entry("ook.theory_BER")
class _:
    gen = staticmethod(lambda r: {"mu": r.choice([1.0, 2.0]), "s0": r.choice([0.1, 0.05]), "s1": r.choice([0.1, 0.2])})
    run = staticmethod(lambda L, a, i: L.ook.theory_BER(a["mu"], a["s0"], a["s1"]))


@entry("ook.DSP", needs=("E",), flags=("stoch", "heavy"))
class _:
    gen = staticmethod(lambda r: {"BWf": r.choice([None, 0.3])})

    @staticmethod
    def run(L, a, i):
        x = i["E"]
        n = 64 * int(L.gv.sps)
        if len(x) > n:
            x = x[:n]
        return L.ook.DSP(x, _bw(L, a["BWf"]))


# ------------------------------- utils -----------------------------------------------------------
@entry("utils.db")
class _:
    gen = staticmethod(lambda r: {"x": r.choice([1.0, [1, 2, 4], 0.0, 1e-3])})
    run = staticmethod(lambda L, a, i: L.ut.db(a["x"]))


@entry("utils.dbm")
class _:
    gen = staticmethod(lambda r: {"x": r.choice([1e-3, [1e-3, 1.0], 2.0])})
    run = staticmethod(lambda L, a, i: L.ut.dbm(a["x"]))


@entry("utils.idb")
class _:
    gen = staticmethod(lambda r: {"x": r.choice([3.0, [0, 10, -10], -30])})
    run = staticmethod(lambda L, a, i: L.ut.idb(a["x"]))


@entry("utils.idbm")
class _:
    gen = staticmethod(lambda r: {"x": r.choice([0.0, [0, 10], 30])})
    run = staticmethod(lambda L, a, i: L.ut.idbm(a["x"]))


@entry("utils.Q")
class _:
    gen = staticmethod(lambda r: {"x": r.choice([0.0, 1.5, [-1.0, 0.0, 3.0]])})
    run = staticmethod(lambda L, a, i: L.ut.Q(a["x"] if not isinstance(a["x"], list) else np.array(a["x"])))


@entry("utils.str2array")
class _:
    gen = staticmethod(lambda r: {"s": r.choice(["1 2 3", "0110", "1.5,2.5;3,4", "1+2j 3-1i"]),
                                  "dt": r.choice([None, None, "float"])})
    run = staticmethod(lambda L, a, i: L.ut.str2array(a["s"], float if a["dt"] == "float" and "j" not in a["s"] else None))


@entry("utils.dec2bin")
class _:
    gen = staticmethod(lambda r: {"v": r.choice([0, 5, 255, 1000]), "d": r.choice([8, 10, 4])})
    run = staticmethod(lambda L, a, i: L.ut.dec2bin(a["v"], a["d"]))


@entry("utils.shortest_int", needs=("E",))
class _:
    gen = staticmethod(lambda r: {"p": r.choice([50, 90, 99.99, 10])})
    run = staticmethod(lambda L, a, i: L.ut.shortest_int(np.asarray(i["E"].signal).real, a["p"]))


@entry("utils.theory_BER")
class _:
    gen = staticmethod(lambda r: {"P": r.choice([-30, -20, [-35, -25]]), "mod": r.choice(["ook", "ppm"]),
                                  "M": r.choice([4, 8]), "dec": r.choice(["soft", "hard"]),
                                  "amp": r.random() < 0.5, "ER": r.choice([10, 20])})

    @staticmethod
    def run(L, a, i):
        kw = dict(ER=a["ER"], amplify=a["amp"])
        if a["amp"]:
            kw.update(G=20, NF=5, BW_opt=50e9)
        if a["mod"] == "ppm":
            kw.update(M=a["M"], decision=a["dec"])
        return L.ut.theory_BER(a["P"], a["mod"], **kw)


@entry("utils.noise_variances")
class _:
    gen = staticmethod(lambda r: {"P": r.choice([-30, -20]), "mod": r.choice(["ook", "ppm"]), "amp": r.random() < 0.5})

    @staticmethod
    def run(L, a, i):
        kw = dict(amplify=a["amp"])
        if a["amp"]:
            kw.update(G=20, NF=5, BW_opt=50e9)
        if a["mod"] == "ppm":
            kw.update(M=4)
        return L.ut.noise_variances(a["P"], a["mod"], **kw)


# ------------------------------- signal methods -----------------------------------------------------
def _sigobj(i, a):
    return i["O"] if a["on"] == "O" else i["E"]


@entry("m.power", needs=("O", "E"))
class _:
    gen = staticmethod(lambda r: {"on": r.choice("OE"), "by": r.choice(["all", "signal", "noise", "ALL"])})
    run = staticmethod(lambda L, a, i: _sigobj(i, a).power(a["by"]))


@entry("m.abs", needs=("O", "E"))
class _:
    gen = staticmethod(lambda r: {"on": r.choice("OE"), "by": r.choice(["all", "signal", "noise"])})
    run = staticmethod(lambda L, a, i: _sigobj(i, a).abs(a["by"]))


@entry("m.phase", needs=("O", "E"))
class _:
    gen = staticmethod(lambda r: {"on": r.choice("OE")})
    run = staticmethod(lambda L, a, i: _sigobj(i, a).phase())


@entry("m.t", needs=("O", "E"))
class _:
    gen = staticmethod(lambda r: {"on": r.choice("OE")})
    run = staticmethod(lambda L, a, i: _sigobj(i, a).t())


@entry("m.w", needs=("O", "E"))
class _:
    gen = staticmethod(lambda r: {"on": r.choice("OE"), "shift": r.random() < 0.5})
    run = staticmethod(lambda L, a, i: _sigobj(i, a).w(a["shift"]))


@entry("m.apply", needs=("O", "E"))
class _:
    gen = staticmethod(lambda r: {"on": r.choice("OE"), "f": r.choice(["abs", "double", "conj_copy"])})

    @staticmethod
    def run(L, a, i):
        f = {"abs": np.abs, "double": (lambda v: v * 2), "conj_copy": (lambda v: np.array(np.conj(v)))}[a["f"]]
        return _sigobj(i, a).apply(f)


@entry("m.copy", needs=("O", "E"))
class _:
    gen = staticmethod(lambda r: {"on": r.choice("OE"), "n": r.choice([None, 10, 100])})
    run = staticmethod(lambda L, a, i: _sigobj(i, a).copy(a["n"]))


@entry("m.call", needs=("O", "E"))
class _:
    gen = staticmethod(lambda r: {"on": r.choice("OE"), "dom": r.choice(["w", "t", "f"]), "shift": r.random() < 0.5})
    run = staticmethod(lambda L, a, i: _sigobj(i, a)(a["dom"], a["shift"]))


@entry("m.plot", needs=("O", "E"), flags=("self",))
class _:
    gen = staticmethod(lambda r: {"on": r.choice("OE"), "style": r.choice(["dark", "light"]), "grid": r.random() < 0.3,
                                  "n": r.choice([None, 64])})
    run = staticmethod(lambda L, a, i: _sigobj(i, a).plot("-", n=a["n"], style=a["style"], grid=a["grid"]))


@entry("m.psd", needs=("O", "E"), flags=("self",))
class _:
    gen = staticmethod(lambda r: {"on": r.choice("OE"), "yscale": r.choice(["dbm", "linear"]), "n": r.choice([None, 64])})
    run = staticmethod(lambda L, a, i: _sigobj(i, a).psd("-", n=a["n"], yscale=a["yscale"]))


@entry("m.arith", needs=("O", "E"))
class _:
    gen = staticmethod(lambda r: {"on": r.choice("OE"), "form": r.choice(["0+x", "sum", "x+x", "x*2", "x-1", "2-x", "x+0.0"])})

    @staticmethod
    def run(L, a, i):
        x = _sigobj(i, a)
        f = a["form"]
        return {"0+x": lambda: 0 + x, "sum": lambda: sum([x]), "x+x": lambda: x + x, "x*2": lambda: x * 2,
                "x-1": lambda: x - 1, "2-x": lambda: 2 - x, "x+0.0": lambda: x + 0.0}[f]()


@entry("m.gt", needs=("E", "arr"))
class _:
    gen = staticmethod(lambda r: {"cmp": r.choice([">", "<"]), "thr": r.choice(["scalar", "poolarr"])})

    @staticmethod
    def run(L, a, i):
        x = i["E"]
        thr = i["arr"] if a["thr"] == "poolarr" and i["arr"].ndim == 1 and len(i["arr"]) == len(x) else 0.5
        return (x > thr) if a["cmp"] == ">" else (x < thr)


# ------------------------------- failed calls (documented errors) ---------------------------------------
FAILED = {
    "DAC_Vout": lambda L, i: L.dv.DAC(i["bits"], Vout=100),
    "DAC_shape": lambda L, i: L.dv.DAC(i["bits"], pulse_shape="triangle"),
    "DAC_T": lambda L, i: L.dv.DAC(i["bits"], pulse_shape="gaussian", T=10 ** 6),
    "PD_r": lambda L, i: L.dv.PD(i["O"], 1e9, r=2.0),
    "PD_inc": lambda L, i: L.dv.PD(i["O"], 1e9, include_noise="nothing"),
    "MZM_pol": lambda L, i: L.dv.MZM(i["O"], 1.0, pol="z"),
    "MZM_len": lambda L, i: L.dv.MZM(i["O"], np.ones(3)),
    "PRBS_order": lambda L, i: L.dv.PRBS(8, 10),
    "PRBS_len": lambda L, i: L.dv.PRBS(7, 0),
    "BPF_type": lambda L, i: L.dv.BPF(i["E"], 1e9),
    "FIBER_type": lambda L, i: L.dv.FIBER(i["E"], 1.0),
    "EDFA_type": lambda L, i: L.dv.EDFA(i["E"], 10, 5),
    "DM_type": lambda L, i: L.dv.DM(i["E"], 10.0),
    "LPF_type": lambda L, i: L.dv.LPF("abc", 1e9),
    "HDD_M": lambda L, i: L.ppm.HDD([1, 0, 0], 3),
    "SDD_len": lambda L, i: L.ppm.SDD(np.ones(5), 4),
    "db_neg": lambda L, i: L.ut.db(-1.0),
    "dec2bin_big": lambda L, i: L.ut.dec2bin(300, 8),
    "str2array_bad": lambda L, i: L.ut.str2array("1 2 x"),
    "FBG_spec": lambda L, i: L.dv.FBG(i["O"], fc=193e12),
    "call_domain": lambda L, i: i["E"]("z"),
    "gt_optical": lambda L, i: i["O"] > 1.0,
}

LIGHT = [k for k, v in CAT.items() if "heavy" not in v[3]]
HEAVY = [k for k, v in CAT.items() if "heavy" in v[3]]
