"""Copies seeded/INDEX.md into DESIGN.md as Appendix C (regenerated, idempotent)."""
import os
V = os.path.dirname(os.path.dirname(os.path.abspath(__file__)))
d = open(os.path.join(V, "DESIGN.md")).read()
idx = open(os.path.join(V, "seeded", "INDEX.md")).read()
marker = "\n## Appendix C — which check catches which seeded change (generated from seeded/INDEX.md)\n"
if marker in d:
    d = d[:d.index(marker)]
rows = [l for l in idx.splitlines() if l.startswith("|")]
# compact: case | property | tier | oracle | needs (short)
out = [marker, "Prefix: none = round 1 (independent), `R2-` = adversarial round, `R3-`/`R4-`/`R5-`/`R6-`/`R7-` = independent rounds, `R8-` = independent round asked for indirect changes outside the anchored functions, `R9-` = independent round asked for one argument-form change, one indirect change and one free change. "
       "Full text (what each change breaks and needs) in `seeded/<case>/meta.json`.\n",
       "| case | check | tier that reports it | oracle | needs to manifest (abridged) |", "|---|---|---|---|---|"]
for l in rows[2:]:
    c = [x.strip() for x in l.strip("|").split("|")]
    if len(c) >= 7:
        out.append(f"| {c[0]} | {c[1]} | {c[5]} | {c[6]} | {c[3][:100]} |")
open(os.path.join(V, "DESIGN.md"), "w").write(d.rstrip("\n") + "\n" + "\n".join(out) + "\n")
print("appendix C rows:", len(out) - 4)
