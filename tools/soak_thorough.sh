#!/bin/bash
# usage: tools/soak_thorough.sh "<ids>" <first_seed> <last_seed>  - thorough tier under several master seeds
ids=${1:-"C17"}; a=${2:-1}; b=${3:-5}
cd "$(dirname "$0")/.."
bad=0
for s in $(seq $a $b); do
  for id in $ids; do
    out=$(VERIF_SEED=$s timeout 7200 ./check $id thorough --no-selftest 2>&1); rc=$?
    echo "$id seed=$s rc=$rc :: $(echo "$out" | tail -1)"
    if [ $rc -ne 0 ]; then bad=$((bad+1)); echo "$out" | grep -A4 "violation in\|HARNESS" | head -10; fi
  done
done
echo "SOAK-THOROUGH-DONE failures=$bad"
