#!/bin/bash
# usage: tools/seeded_round.sh setup|import|cleanup <N>      (round N lives in /tmp/wt<N>, cases become seeded/R<N>-<ID>-k)
# setup:   one detached worktree of /repo HEAD per claimed property + the property text + the prompt for the sub-agents
# import:  copy out/patch<k>.diff, demo<k>.py, meta<k>.json to /verif/seeded/R<N>-<ID>-<k>/ (path asserts stripped)
# cleanup: remove the worktrees
set -u
cmd=$1; N=$2; WT=/tmp/wt$N
IDS="C01 C04 C09 C10 C12 C14 C15 C17 C20"
VERIF=$(cd "$(dirname "$0")/.." && pwd)
case $cmd in
setup)
  mkdir -p $WT
  for id in $IDS; do git -C /repo worktree add --detach $WT/$id HEAD >/dev/null 2>&1 && echo -n "$id "; done; echo
  /venv/bin/python - "$WT" <<'PY'
import json, sys
wt = sys.argv[1]
for l in open('/verif/properties.jsonl'):
    p = json.loads(l)
    if p['id'] in 'C01 C04 C09 C10 C12 C14 C15 C17 C20'.split():
        open(f"{wt}/{p['id']}.prop.txt", "w").write(
            f"{p['id']}: {p['title']}\n\nSTATEMENT: {p['statement']}\n\nQUANTIFIED OVER: {p['quantifier']['text']}\n\n"
            f"WHERE (code anchors): {json.dumps(p['anchors']['mechanism'])}\n")
PY
  sed "s#@WT@#$WT#g" $VERIF/tools/seeded_prompt.txt > $WT/PROMPT.txt
  ;;
import)
  for id in $IDS; do for k in 1 2 3; do
    [ -f $WT/$id/out/patch$k.diff ] || { echo "missing $id/$k"; continue; }
    d=$VERIF/seeded/R$N-$id-$k; mkdir -p $d
    cp $WT/$id/out/patch$k.diff $d/patch.diff
    grep -v "startswith('$WT\|startswith(\"$WT" $WT/$id/out/demo$k.py > $d/demo.py
    cp $WT/$id/out/meta$k.json $d/agent_meta.json
  done; done
  grep -ln "$WT" $VERIF/seeded/R$N-*/demo.py
  ;;
cleanup)
  for id in $IDS; do git -C /repo worktree remove --force $WT/$id; done
  rm -rf $WT; git -C /repo worktree prune; git -C /repo worktree list; git -C /repo status --short | head
  ;;
esac
