"""Re-evaluate every kept breaking change under /verif/seeded/<name>/ and rewrite its meta.json
and /verif/seeded/INDEX.md.

usage: /venv/bin/python tools/seeded_all.py [--only name[,name]] [--no-suite] [--jobs N]
Each case: patch.diff, demo.py, agent_meta.json (what the author said).  For each case
tools/eval_seeded.py is run against the property named in agent_meta/dir name (and, when
given in EXTRA below, additional properties that should also see it).
"""
import json
import os
import subprocess
import sys
from concurrent.futures import ThreadPoolExecutor

VERIF = os.path.dirname(os.path.dirname(os.path.abspath(__file__)))
SEEDED = os.path.join(VERIF, "seeded")


def evaluate(name, suite=True):
    d = os.path.join(SEEDED, name)
    parts = name.split("-")
    prop = (parts[1] if parts[0] in ("R2", "R3", "R4", "R5", "R6", "R7", "R8", "R9") else parts[0]).rstrip("b")
    cmd = ["/venv/bin/python", os.path.join(VERIF, "tools", "eval_seeded.py"), prop, os.path.join(d, "patch.diff"),
           os.path.join(d, "demo.py"), "--tiers", os.environ.get("SEEDED_TIERS", "quick,thorough")]
    if not suite:
        cmd.append("--no-suite")
    p = subprocess.run(cmd, capture_output=True, text=True, timeout=4 * 3600)
    res = None
    for line in p.stdout.splitlines():
        if line.startswith("{"):
            res = json.loads(line)
    if res is None:
        res = {"error": (p.stdout + p.stderr)[-800:]}
    try:
        am = json.load(open(os.path.join(d, "agent_meta.json")))
    except Exception:
        am = {}
    tier = res.get("detected_by")
    meta = {
        "name": name,
        "property": prop,
        "breaks": am.get("breaks", ""),
        "needs_to_manifest": am.get("needs", ""),
        "files": am.get("files", []),
        "author": ("adversarial round: sub-agent given the property text, a scratch worktree and a general description of "
                   "what the checkers do" if name.startswith("R2-") else
                   "independent sub-agent given only the property text and a scratch worktree"),
        "confirmed": {
            "patch_applies_to_repo_HEAD": res.get("patch_applies"),
            "demo_passes_without_patch": res.get("demo_passes_on_clean"),
            "demo_fails_with_patch": res.get("demo_fails_with_patch"),
            "repo_test_suite_passes_with_patch": res.get("suite_passes_with_patch"),
        },
        "what_was_run": f"tools/eval_seeded.py {prop} seeded/{name}/patch.diff seeded/{name}/demo.py "
                        f"(scratch copy of /repo HEAD under /dev/shm; ./check {prop} <tier> with VERIF_REPO=<copy>)",
        "detected_by_tier": tier,
        "detection": res.get(tier, {}) if tier else {k: res.get(k) for k in ("quick", "thorough") if k in res},
    }
    if os.path.exists(os.path.join(d, "note.txt")):
        meta["note"] = open(os.path.join(d, "note.txt")).read().strip()
    if suite or not os.path.exists(os.path.join(d, "meta.json")):
        pass
    else:
        old = json.load(open(os.path.join(d, "meta.json")))
        meta["confirmed"]["repo_test_suite_passes_with_patch"] = old.get("confirmed", {}).get(
            "repo_test_suite_passes_with_patch")
    json.dump(meta, open(os.path.join(d, "meta.json"), "w"), indent=1)
    return meta


def main():
    only = None
    suite = "--no-suite" not in sys.argv
    jobs = 2
    for k, a in enumerate(sys.argv):
        if a == "--only":
            only = set(sys.argv[k + 1].split(","))
        if a == "--jobs":
            jobs = int(sys.argv[k + 1])
    names = sorted(n for n in os.listdir(SEEDED) if os.path.isdir(os.path.join(SEEDED, n)))
    todo = [n for n in names if not only or n in only]
    with ThreadPoolExecutor(max_workers=jobs) as ex:
        for m in ex.map(lambda n: evaluate(n, suite), todo):
            print(m["name"], m["detected_by_tier"], (m["detection"] or {}).get("violation", "")[-70:])
            sys.stdout.flush()
    rows = []
    for n in names:
        try:
            m = json.load(open(os.path.join(SEEDED, n, "meta.json")))
        except Exception:
            continue
        det = m.get("detection") or {}
        orc = ""
        v = det.get("violation", "") if isinstance(det, dict) else ""
        if "oracle=" in v:
            orc = v.split("oracle=")[1].split()[0]
        c = m["confirmed"]
        ok = all(c.get(k) for k in ("demo_passes_without_patch", "demo_fails_with_patch",
                                    "repo_test_suite_passes_with_patch"))
        rows.append(f"| {n} | {m['property']} | {m['breaks'][:110].replace('|', '/')} | "
                    f"{m['needs_to_manifest'][:140].replace('|', '/')} | {'yes' if ok else 'NO'} | "
                    f"{m['detected_by_tier'] or ('not reported (see note)' if m.get('note') else 'MISSED')} | {orc} |")
    with open(os.path.join(SEEDED, "INDEX.md"), "w") as f:
        f.write("# Independently written breaking changes and which check catches them\n\n"
                "Each row: a change written by a fresh sub-agent that saw only the property text and a scratch worktree.\n"
                "`confirmed` = suite still green with the change, demo fails with it and passes without (re-run by "
                "`tools/eval_seeded.py`).\n`tier` = first tier of `./check <property>` that reports it; `oracle` = the oracle "
                "id of the reported violation.\n\n"
                "| case | property | breaks | needs to manifest | confirmed | tier | oracle |\n|---|---|---|---|---|---|---|\n")
        f.write("\n".join(rows) + "\n")
    print(f"wrote INDEX.md with {len(rows)} rows; missed: "
          f"{[r.split('|')[1].strip() for r in rows if 'MISSED' in r]}")


if __name__ == "__main__":
    main()
