#!/bin/bash
# usage: tools/soak.sh "<ids>" <first_seed> <last_seed> [tier]
# Runs each check under many master seeds; prints one line per non-zero exit. Evidence files are
# rewritten as a side effect (run it from a snapshot, e.g. `vp run -- tools/soak.sh ...`).
ids=${1:-"C01 C04 C09 C12 C15 C20"}; a=${2:-100}; b=${3:-120}; tier=${4:-quick}
cd "$(dirname "$0")/.."
bad=0
for s in $(seq $a $b); do
  for id in $ids; do
    out=$(VERIF_SEED=$s timeout 3600 ./check $id $tier --no-selftest 2>&1); rc=$?
    if [ $rc -ne 0 ]; then bad=$((bad+1)); echo "SOAK-FAIL id=$id seed=$s rc=$rc"; echo "$out" | grep -A3 "violation in\|HARNESS" | head -8; fi
  done
  echo "seed $s done (failures so far: $bad)"
done
echo "SOAK-DONE failures=$bad"
