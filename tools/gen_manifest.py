"""Regenerates /verif/MANIFEST.json from the tables below (run after adding a check)."""
import json
import os

VERIF = os.path.dirname(os.path.dirname(os.path.abspath(__file__)))

CLAIMED = {
    "C01": dict(
        technique="deterministic simulation: seeded value-pool histories vs array-pair reference model, with caller-scribble / write-protect / gv-reconfiguration faults",
        text="Seeded search over expression programs (depth >= 6) on a pool of live signal objects; every op is checked against an independent (signal, noise) array model and every live object is re-digested after every op, so aliasing and operand mutation surface when the simulated caller later writes in place. Sampling, not proof.",
        note="numpy semantics trusted; operand mixes the statement does not define (1-pol with 2-pol objects, field semantics of *) are not asserted; ndarray/numpy scalar on the left and numpy-integer indices are not generated",
        ref="DESIGN.md 3/C01"),
    "C04": dict(
        technique="deterministic simulation: checkpoint/crash/resume consumer histories vs independent GF(2) reference (exactly-once stream); black-box identification of the step map + computed primitivity; full-cycle enumeration in resumed chunks",
        text="Resume clause decided by seeded histories with crash_restart faults against a reference written from the statement; period/balance decided by identifying the generator's one-step map black-box, computing that it is the primitive companion map of the documented trinomial, and walking the whole cycle of orders 7..23 (quick) and 31 (thorough) in randomly sized resumed calls.",
        note="reference LFSR and GF(2) matrix code in /verif/sim/models.py are trusted (self-cross-checked in every ident task); documented taps transcribed from the docstring",
        ref="DESIGN.md 3/C04"),
    "C09": dict(
        technique="deterministic simulation with the RNG behind a seam: zero / one-hot / impulse / constant draw streams identify every noise term exactly; same-seed twin runs; gv pre-histories",
        text="PD is executed in bundles of twin runs whose Gaussian draws are served by the simulator; the effective scale of each unit-variance draw is read off exactly, so the documented variances, the selection table and the determinism of the signal part are checked for every draw, not statistically. Falls back to seeded six-sigma sweeps if the seam is bypassed.",
        note="library LPF trusted as the output filter (C11's subject) but evaluated in a pristine process after every grid change, plus two filter-independent checks (CW level away from the edges, locality on long records); physical constants from scipy.constants; statistical six-sigma fallback only if a draw escapes the RNG seam",
        ref="DESIGN.md 3/C09"),
    "C10": dict(
        technique="deterministic simulation with the RNG behind a seam: same-seed noise-stripped twins and one-hot draw streams give the exact 4xK ASE mixing matrix; gv pre-histories",
        text="EDFA is executed in bundles of twins; gain on signal and on incoming noise, polarisation bookkeeping and the ASE covariance (power, independence, circularity) are identified exactly from scripted draws; BW clause by comparison with BPF of the unfiltered twin.",
        note="library BPF trusted for the exact BW comparison (evaluated in a pristine process after grid changes), plus a BPF-independent stop-band attenuation check; scipy.constants; the carrier is taken from the check's own record of gv(wavelength=...)/clean(), gv.f0 is configured through wavelength only",
        ref="DESIGN.md 3/C10"),
    "C12": dict(
        technique="deterministic simulation of a PPM link over a slot channel with injected flips/erasures/bursts; HDD's random choices served and enumerated by the simulator; exhaustive fault-free baseline",
        text="Sender -> faulty slot channel -> HDD/SDD -> decoder, with every random choice of HDD answered by the simulator (first/last/real/every answer), so 'keeps one of the ON slots' is checked for every served choice; plus labelled exhaustive enumeration of all bit strings <= 12 and all slot patterns <= 16 slots for M <= 8.",
        note="independent encoder/decoder model in the check; DAC trusted for SDD waveforms (C05's subject)",
        ref="DESIGN.md 3/C12"),
    "C14": dict(
        technique="deterministic simulation: interleaved multi-user bench sessions on the shared gv singleton and shared write-guarded inputs, with clock / RNG / scribble / failed-call / gv-reconfiguration faults, compared call by call with an isolated golden execution; grid reference model",
        text="The global grid is checked against the statement after every gv()/clean() of seeded histories; every device/codec/DSP call of an interleaved session must leave gv and its arguments untouched, alias nothing, repeat bit-for-bit under the same seed and equal the result of the same call executed alone in a fresh fork.",
        note="golden = the same library call executed alone in a fork of a pristine process that replayed only the gv ops, inputs shipped by value (this is the point of the check); bit-exact comparison within one machine image; FIBER step count bounded by the harness",
        ref="DESIGN.md 3/C14"),
    "C15": dict(
        technique="deterministic simulation: seeded value-pool histories vs list-of-bits reference model with caller-scribble and write-protect faults; exhaustive baseline <= 12 bits",
        text="Seeded search over constructor/concat/invert/slice/compare programs on a pool of live sequences, every live object compared with its list model after every op; aliasing and operand mutation surface through later in-place writes by the simulated caller; all words <= 12 bits enumerated as a labelled baseline.",
        note="ndarray on the left of + not generated (numpy dispatch); out-of-range int index may raise IndexError",
        ref="DESIGN.md 3/C15"),
    "C17": dict(
        technique="deterministic simulation over the clustering nondeterminism: seed sweep of the KMeans initialisation with same-seed twin executions on rescaled waveforms",
        text="GET_EYE draws its clustering initialisations from numpy's global RNG; each waveform is estimated under several controlled seeds, and each seed is replayed on the affinely rescaled waveform, so the accuracy bands hold for every seed explored and equivariance compares executions that saw identical draws.",
        note="bands quoted verbatim from the statement (lower sigma bound against the noise realised on the estimator's own window); generated patterns keep >= n/8 transitions and >= n/10 slots of each level at each slot parity; sampling over seeds and waveforms",
        ref="DESIGN.md 3/C17"),
    "C20": dict(
        technique="deterministic simulation: real PPG3204 driver against an in-process SCPI reference instrument on a simulated VISA transport with timeouts, rejected commands, resets and slow replies; delayed noisy channel for SYNC",
        text="Every command the driver emits in seeded set/get histories is parsed by a strict reference instrument (grammar, channel, limits, block headers, address chain); fault-free runs also require clamping with a warning and exact memory round-trips; under transport faults only safety is required. SYNC is run over a simulated repeat/delay/noise channel.",
        note="reply format of the instrument (definite-length block) is a modelling assumption recorded in evidence; pyvisa session replaced by FakeVISA",
        ref="DESIGN.md 3/C20"),
}

NOT_APPLICABLE = {
    "C02": "exact-inverse/Parseval/shift identities of one call on one input; no history, nondeterminism, peer or fault enters the statement (pure function: not a simulation target)",
    "C03": "with all noise off the link is a deterministic composition of pure blocks; nothing for a scheduler or fault injector to decide",
    "C05": "DAC/SAMPLER are pure functions of (bits, gv.sps, arguments); slot-exactness is an input-space statement",
    "C06": "per-sample closed-form transfer identities of one call; only a minor LASER clause touches the RNG seam",
    "C07": "unitarity/group-law identities of a linear time-invariant filter; pure",
    "C08": "accuracy/convergence of one deterministic integrator call against closed forms; pure",
    "C11": "linearity/DC-gain/-6 dB/zero-phase of a fixed filter; pure",
    "C13": "agreement of closed-form BER/noise formulas with each other; pure",
    "C16": "ODE reflectivity vs coupled-mode closed forms; pure",
    "C18": "ADC/shortest_int are pure functions of a data vector",
    "C19": "scalar/string conversion identities; pure",
}


def main():
    built = sorted(f[:-3].upper() for f in os.listdir(os.path.join(VERIF, "checks"))
                   if f.startswith("c") and f.endswith(".py") and f[1:-3].isdigit())
    checks = []
    na = dict(NOT_APPLICABLE)
    for pid, c in sorted(CLAIMED.items()):
        if pid not in built:
            na[pid] = "claimed in DESIGN.md but its check is not built yet in this commit (temporary entry)"
            continue
        checks.append({
            "property_id": pid,
            "quick_cmd": f"./check {pid} quick",
            "thorough_cmd": f"./check {pid} thorough",
            "evidence_file": f"/verif/evidence/{pid}.json",
            "replay_cmd_template": f"./check {pid} --replay {{path}}",
            "engine": "bench-sim",
            "level_claimed": {"category": "exploration", "text": c["text"], "design_ref": c["ref"]},
            "level_note": c["note"],
            "technique": c["technique"],
        })
    doc = {
        "version": 1,
        "setup_cmd": "/venv/bin/python -B -c \"import sys; sys.path.insert(0, '/verif'); import sim.core as c; c.load_library(); print('setup ok: library importable from', c.REPO)\"",
        "hooks": {
            "guard": "OPTICOMLIB_VERIF",
            "enable": "none needed: every seam is taken from outside by rebinding module attributes (DESIGN.md 2.9); checks import the library from VERIF_REPO (default /repo) with python -B",
            "baseline_off_cmd": "cd /repo && /venv/bin/python -m pytest -ra -q -p no:cacheprovider --timeout=900 --continue-on-collection-errors",
            "source_commits": [],
            "add_only": True,
        },
        "engines": [{
            "name": "bench-sim",
            "path": "/verif/sim",
            "serves_properties": [c["property_id"] for c in checks],
            "kind_free_text": "own deterministic simulator: seeded op-list generator, single interpreter, fork-per-run from a pristine template, monkeypatched clock/RNG/VISA/warnings seams, ddmin minimiser, replay files",
        }],
        "checks": checks,
        "not_applicable": [{"property_id": k, "reason": v} for k, v in sorted(na.items())],
        "notes": "Technique family: deterministic simulation with fault injection. Exit 0 held / 1 VIOLATION line + replay / 2 harness error. VERIF_SEED selects the master seed; VERIF_REPO overrides the tree under test.",
    }
    with open(os.path.join(VERIF, "MANIFEST.json"), "w") as f:
        json.dump(doc, f, indent=1)
    print("claimed:", [c["property_id"] for c in checks], "not_applicable:", sorted(na))


if __name__ == "__main__":
    main()
