#!/bin/bash
# usage: tools/run_all.sh [quick|thorough]   - runs every claimed check on /repo and prints one line each
cd "$(dirname "$0")/.."
tier=${1:-quick}; rc_all=0
for id in C01 C04 C09 C10 C12 C14 C15 C17 C20; do
  t0=$(date +%s); out=$(./check $id $tier 2>&1); rc=$?; t1=$(date +%s)
  echo "$id rc=$rc $((t1-t0))s :: $(echo "$out" | tail -1)"
  [ $rc -ne 0 ] && { rc_all=1; echo "$out" | grep -A4 "violation in\|HARNESS" | head -12; }
done
exit $rc_all
