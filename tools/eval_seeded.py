"""Evaluate an independently written breaking change against the checks.

usage: /venv/bin/python tools/eval_seeded.py <property> <patch.diff> <demo.py> [--tiers quick,thorough] [--no-suite]

Works on a scratch copy of /repo's tracked tree under /dev/shm (removed afterwards):
 1. demo on the clean copy must pass (exit 0);
 2. patch applied (patch -p1): the repository's own test suite must still pass, the demo must fail;
 3. the property's check is pointed at the copy (VERIF_REPO) - quick first, thorough only if quick misses.
Prints one JSON line.  /repo itself is never modified.
"""
import json
import os
import shutil
import subprocess
import sys
import tempfile
import time

VERIF = os.path.dirname(os.path.dirname(os.path.abspath(__file__)))
ENV1 = dict(os.environ, OMP_NUM_THREADS="1", OPENBLAS_NUM_THREADS="1", MPLBACKEND="Agg")


def sh(cmd, cwd=None, env=None, timeout=3600):
    p = subprocess.run(cmd, cwd=cwd, env=env, capture_output=True, text=True, timeout=timeout)
    return p.returncode, p.stdout, p.stderr


def main():
    args = [a for a in sys.argv[1:] if not a.startswith("--")]
    prop, patch, demo = args[0], os.path.abspath(args[1]), os.path.abspath(args[2])
    tiers = ["quick", "thorough"]
    for k, a in enumerate(sys.argv):
        if a == "--tiers":
            tiers = sys.argv[k + 1].split(",")
    suite = "--no-suite" not in sys.argv
    out = {"property": prop, "patch": patch}
    scratch = tempfile.mkdtemp(prefix="seed-", dir="/dev/shm")
    try:
        rc, o, e = sh(["git", "-C", "/repo", "archive", "--format=tar", "HEAD", "-o", os.path.join(scratch, "t.tar")])
        sh(["tar", "xf", "t.tar"], cwd=scratch)
        os.remove(os.path.join(scratch, "t.tar"))
        env = dict(ENV1, PYTHONPATH=scratch)
        rc, o, e = sh(["/venv/bin/python", "-B", demo], cwd=scratch, env=env, timeout=900)
        out["demo_passes_on_clean"] = rc == 0
        rc, o, e = sh(["patch", "-p1", "-i", patch], cwd=scratch)
        out["patch_applies"] = rc == 0
        if rc != 0:
            out["patch_err"] = (o + e)[-400:]
            print(json.dumps(out))
            return
        rc, o, e = sh(["/venv/bin/python", "-B", demo], cwd=scratch, env=env, timeout=900)
        out["demo_fails_with_patch"] = rc != 0
        if suite:
            rc, o, e = sh(["/venv/bin/python", "-B", "-m", "pytest", "-q", "-p", "no:cacheprovider", "tests"], cwd=scratch,
                          env=env, timeout=1800)
            out["suite_passes_with_patch"] = rc == 0
            out["suite_tail"] = o.strip().splitlines()[-1:] if o else []
        for tier in tiers:
            t0 = time.time()
            rc, o, e = sh([os.path.join(VERIF, "check"), prop, tier, "--no-selftest"],
                          env=dict(os.environ, VERIF_REPO=scratch, VERIF_MIN_BUDGET="80",
                                   VERIF_REPLAY_DIR=os.path.join(scratch, "replays"),
                                   VERIF_EVIDENCE_DIR=os.path.join(scratch, "evidence")), timeout=7200)
            lines = o.splitlines()
            out[tier] = {"rc": rc, "wall": round(time.time() - t0, 1),
                         "violation": next((l.strip() for l in lines if l.startswith("violation in task")), "")[:200],
                         "detail": next((l.strip() for l in lines if l.startswith("  ") and "minimised" not in l
                                         and "replay confirmed" not in l), "")[:300]}
            if rc == 2:
                out[tier]["err"] = (o + e)[-500:]
            if rc == 1:
                break
        out["detected_by"] = next((t for t in tiers if out.get(t, {}).get("rc") == 1), None)
        print(json.dumps(out))
    finally:
        shutil.rmtree(scratch, ignore_errors=True)


if __name__ == "__main__":
    main()
